#!/venv/bin/python
"""Single entry point:  run.py <Cnn> [--tier quick|thorough] [--replay FILE]

exit 0: property held on everything explored (KNOWN-FINDING lines may be printed)
exit 1: `VIOLATION property=<id> replay=<path>` printed for a violation not listed in known_findings.json
exit 2: harness error (never a verdict)
"""
import argparse
import glob
import os
import sys

sys.path.insert(0, os.path.dirname(os.path.abspath(__file__)))
sys.dont_write_bytecode = True

from vf import env  # noqa: E402


def main() -> int:
	ap = argparse.ArgumentParser()
	ap.add_argument('prop')
	ap.add_argument('--tier', default=os.environ.get('VERIF_TIER', 'quick'), choices=['quick', 'thorough'])
	ap.add_argument('--replay', default=None)
	args = ap.parse_args()
	env.reexec_with_hashseed()
	prop = args.prop.upper()
	mods = glob.glob(os.path.join(env.VERIF_DIR, 'checks', f'{prop.lower()}_*.py'))
	if len(mods) != 1:
		print(f'HARNESS-ERROR: no unique check module for {prop}: {mods}')
		return 2
	modname = 'checks.' + os.path.basename(mods[0])[:-3]
	from vf import core
	try:
		return core.run_check(modname, args.tier, args.replay)
	except Exception:
		import traceback
		print('HARNESS-ERROR: unexpected exception in the harness')
		traceback.print_exc()
		return 2


if __name__ == '__main__':
	sys.exit(main())
