"""C12 — the grammar engine reproduces itself and its compiled rule files (round trips + fixed points)."""
import os

from hypothesis import strategies as st

from vf import core

PROPERTY = 'C12'
LEVEL = 'exploration'
RULE = ('(a) fixed points on the shipped files: Rules.from_ast(parse(gram.lark)) == gram_rules(); executing gram_check.App.render_rules(parse(X.lark)) yields the rule set of the checked-in X_rules.py for '
	'gram and py_gram; (b) generated rule sets expressible in the meta-grammar (1-8 rules, unwrap markers [1]/[*], symbols, string terminals incl. "\\n" "\\t", punctuation and brackets, regexp terminals incl. '
	'escaped slash, sequences, alternatives, [..], (..), (..)*, (..)+, (..)?, nested <= 3), each built together with its expected rule structure: parse(text) == expected, '
	'from_ast(parse(pretty(g))) == g, exec(render_rules(parse(text)))() == g, pretty idempotent; rule sets are compared structurally (symbols in order incl. unwrap suffix, Pattern(expression, role, comp), '
	'Patterns(op, rep, entries)); non-trivial = a repeat/optional group nested inside an alternative and a terminal containing an escape or a meta character; distinct by grammar text')
ASSUMPTIONS = [
	'textual equality of the checked-in rule modules is not demanded (gram_rules.py carries a hand-written docstring); the rule sets they build are compared',
	'terminals contain no single quote (the rule-file renderer writes values inside single-quoted Python literals; the shipped grammars escape it by hand)',
	'string terminals contain no double quote, regexp terminals no blank (the meta-grammar tokenizer splits on neither, but the generator keeps them simple)',
]
# coverage-guided phase of the thorough tier (atheris/libFuzzer over the same strategy and oracle, vf/core.py _drive_atheris)
FUZZ = {'seconds': 120, 'procs': 8, 'max_len': 4096, 'imports': ['rogw.tranp.implements.syntax.tranp.rule', 'rogw.tranp.implements.syntax.tranp.syntax', 'rogw.tranp.implements.syntax.tranp.tokenizer', 'rogw.tranp.implements.syntax.tranp.ast']}
BUDGET = {
	'quick': {'seconds': 35, 'grammars': 600, 'shards': 16},
	'thorough': {'seconds': 500, 'grammars': 60000, 'shards': 16},
}

SYMS = ['a', 'b', 'c', 'expr', 'term', 'name_1', 'X']
STRINGS = ['"x"', '"if"', '"+"', '"|"', '"("', '")"', '"["', '"]"', '":="', '"\\n"', '"\\t"', '"->"', '"*"', '"?"', '"/"', '"a b"', '"=="',
	# raw control characters inside longer terminals (the reader restores a backslash escape only when it is the whole terminal)
	'"a\tb"', '"\t\t"', '"=>\t"', '"\x0c "', '"\\n"', '"a\\tb"', '"#"',
	# string terminals whose body is also the body of a regexp terminal below (same text, different comparison kind)
	'"x+"', '"."', '"[1*]"', '"\\d+"',
	# terminals whose body ends with an escaped backslash (the closing delimiter follows an even run of backslashes)
	'"\\\\"', '"a\\\\"']
REGEXPS = ['/\\\\/', '/[a-z]\\\\/', '/x+/', '/./', '/[a-z]+/', '/\\d+/', '/[a-zA-Z_]\\w*/', '/"[^"]+"/', '/[\\/].+[\\/]/', '/[*+?]/', '/x{1,3}/', '/[1*]/']
META = set('|()[]*+?/\\"')


def build():
	"""Returns helpers that need the repo modules."""
	from rogw.tranp.implements.syntax.tranp.rule import Comps, Operators, Pattern, Patterns, Repeators, Roles, Rules
	return Comps, Operators, Pattern, Patterns, Repeators, Roles, Rules


def equal(a, b, path: str = '') -> str | None:
	"""Structural comparison of two pattern entries; returns the first difference."""
	Comps, Operators, Pattern, Patterns, Repeators, Roles, Rules = build()
	if type(a) is not type(b):
		return f'{path}: {a!r} vs {b!r}'
	if isinstance(a, Pattern):
		if (a.expression, a.role, a.comp) != (b.expression, b.role, b.comp):
			return f'{path}: {a!r} vs {b!r}'
		return None
	if (a.op, a.rep, len(a.entries)) != (b.op, b.rep, len(b.entries)):
		return f'{path}: group ({a.op.value} {a.rep.value} x{len(a.entries)}) vs ({b.op.value} {b.rep.value} x{len(b.entries)})'
	for i, (x, y) in enumerate(zip(a.entries, b.entries)):
		d = equal(x, y, f'{path}[{i}]')
		if d:
			return d
	return None


def rules_equal(a, b) -> str | None:
	ka, kb = list(a.org_symbols()), list(b.org_symbols())
	if ka != kb:
		return f'symbols {ka} vs {kb}'
	for k in ka:
		d = equal(a._rules[k], b._rules[k], k)
		if d:
			return d
	return None


@st.composite
def grammars(draw):
	"""(text, spec) where spec is a JSON-able description of the expected rule structure."""
	rnd = draw(st.randoms(use_true_random=False))
	stats = {'nested_group_in_alt': False, 'meta_terminal': False}

	def term(depth: int, in_alt: bool):
		c = rnd.randint(0, 11) if depth > 0 else rnd.randint(0, 6)
		if c <= 2:
			s = rnd.choice(SYMS)
			return s, ['sym', s]
		if c <= 5:
			s = rnd.choice(STRINGS)
			if set(s[1:-1]) & META or s in ('"\\n"', '"\\t"'):
				stats['meta_terminal'] = True
			return s, ['str', s]
		if c == 6:
			s = rnd.choice(REGEXPS)
			stats['meta_terminal'] = True
			return s, ['re', s]
		if c <= 8:
			t, e = expr(depth - 1)
			if in_alt:
				stats['nested_group_in_alt'] = True
			return f'[{t}]', ['group', '[]', e]
		t, e = expr(depth - 1)
		rep = rnd.choice(['*', '+', '?', 'off', '*'])
		if in_alt:
			stats['nested_group_in_alt'] = True
		return f'({t}){"" if rep == "off" else rep}', ['group', rep, e]

	def terms(depth: int, in_alt: bool):
		n = rnd.randint(1, 3)
		parts = [term(depth, in_alt) for _ in range(n)]
		text = ' '.join(p[0] for p in parts)
		return (text, parts[0][1]) if n == 1 else (text, ['and', [p[1] for p in parts]])

	def expr(depth: int):
		n = rnd.randint(1, 3) if rnd.random() < 0.4 else 1
		alts = [terms(depth, n > 1) for _ in range(n)]
		text = ' | '.join(a[0] for a in alts)
		return (text, alts[0][1]) if n == 1 else (text, ['or', [a[1] for a in alts]])

	lines, spec = [], []
	names = rnd.sample(['entry', 'rule', 'expr', 'term', 'a', 'b', 'c', 'name_1'], rnd.randint(1, 6))
	for name in names:
		unwrap = rnd.choice(['', '', '[1]', '[*]'])
		t, e = expr(rnd.randint(0, 3))
		lines.append(f'{name}{unwrap} := {t}')
		spec.append([name + unwrap, e])
		if rnd.random() < 0.15:
			lines.append('// comment')
		if rnd.random() < 0.1:
			lines.append('')
	return {'text': '\n'.join(lines) + '\n', 'spec': spec, 'stats': stats}


def expected_rules(spec: list):
	Comps, Operators, Pattern, Patterns, Repeators, Roles, Rules = build()

	def conv(e):
		k = e[0]
		if k in ('sym', 'str', 're'):
			return Pattern.make(e[1])
		if k == 'and':
			return Patterns([conv(x) for x in e[1]])
		if k == 'or':
			return Patterns([conv(x) for x in e[1]], op=Operators.Or)
		rep = {'[]': Repeators.OneOrEmpty, '*': Repeators.OverZero, '+': Repeators.OverOne, '?': Repeators.OneOrZero, 'off': Repeators.NoRepeat}[e[1]]
		return Patterns([conv(e[2])], rep=rep)

	return Rules({name: conv(e) for name, e in spec})


_parser = None


def parser():
	global _parser
	if _parser is None:
		from data.syntax.gram_rules import gram_rules
		from data.syntax.gram_tokenizer import gram_tokenizer
		from rogw.tranp.implements.syntax.tranp.syntax import SyntaxParser
		_parser = SyntaxParser(gram_rules(), gram_tokenizer())
	return _parser


def render_to_rules(tree, name: str = 'gen_rules'):
	"""exec() the text gram_check.App.render_rules produces and return the rule set it builds."""
	from rogw.tranp.bin.gram_check import App, Args
	app = App(Args(['-o', f'/nonexistent/{name}.py']))
	text = app.render_rules(tree)
	ns: dict = {}
	exec(compile(text, f'<rendered {name}>', 'exec'), ns)
	return ns[name](), text


def guarded(fn, what: str, fails: list):
	from rogw.tranp.errors import Errors
	try:
		return fn()
	except (Errors.Error, AssertionError, IndexError, KeyError, ValueError, SyntaxError, TypeError, AttributeError) as e:
		fails.append((f'{what}:raises:{type(e).__name__}', f'{type(e).__name__}: {str(e)[:300]}'))
		return None


def judge(case: dict) -> list[tuple[str, str]]:
	from rogw.tranp.implements.syntax.tranp.rule import Rules
	fails: list[tuple[str, str]] = []
	want = expected_rules(case['spec'])
	text = case['text']
	tree = guarded(lambda: parser().parse(text, 'entry'), 'parse', fails)
	if tree is None:
		return fails
	got = guarded(lambda: Rules.from_ast(tree.simplify()), 'from_ast', fails)
	if got is None:
		return fails
	d = rules_equal(got, want)
	if d:
		fails.append(('parse:differs-from-construction', d))
		return fails
	pretty = guarded(lambda: want.pretty(), 'pretty', fails)
	if pretty is None:
		return fails
	back = guarded(lambda: Rules.from_ast(parser().parse(pretty + '\n', 'entry').simplify()), 'reparse-pretty', fails)
	if back is not None:
		d = rules_equal(back, want)
		if d:
			fails.append(('pretty:roundtrip', f'{d}\n  pretty={pretty!r}'))
		elif back.pretty() != pretty:
			fails.append(('pretty:not-idempotent', f'{pretty!r} vs {back.pretty()!r}'))
	rendered = guarded(lambda: render_to_rules(tree)[0], 'render_rules', fails)
	if rendered is not None:
		d = rules_equal(rendered, want)
		if d:
			fails.append(('render_rules:differs', d))
	return fails


def fixed_points() -> list[tuple[str, str, dict]]:
	"""The obligations on the shipped files."""
	import importlib
	from rogw.tranp.implements.syntax.tranp.rule import Rules
	from vf import env
	out = []
	for lark, modname, fn in (('gram.lark', 'data.syntax.gram_rules', 'gram_rules'), ('py_gram.lark', 'data.syntax.py_rules', 'py_rules')):
		fails: list = []
		src = open(os.path.join(env.REPO, 'data/syntax', lark), encoding='utf-8').read()
		shipped = getattr(importlib.import_module(modname), fn)()
		tree = guarded(lambda: parser().parse(src, 'entry'), f'{lark}:parse', fails)
		if tree is not None:
			direct = guarded(lambda: Rules.from_ast(tree.simplify()), f'{lark}:from_ast', fails)
			if direct is not None and lark == 'gram.lark':
				d = rules_equal(direct, shipped)
				if d:
					fails.append((f'{lark}:self-reproduction', d))
			rendered = guarded(lambda: render_to_rules(tree, fn)[0], f'{lark}:render_rules', fails)
			if rendered is not None:
				d = rules_equal(rendered, shipped)
				if d:
					fails.append((f'{lark}:compiled-file-out-of-date', d))
		for sig, detail in fails:
			out.append((sig, detail, {'kind': 'fixed-point', 'file': lark}))
	return out


def nontrivial(case: dict) -> bool:
	return case['stats']['nested_group_in_alt'] and case['stats']['meta_terminal']


def shard(ctx: core.Ctx) -> None:
	try:
		parser()
	except Exception as e:  # the engine cannot even rebuild its own built-in rules
		ctx.fail(f'engine:cannot-load-own-rules:{type(e).__name__}', f'{type(e).__name__}: {str(e)[:300]}', {'kind': 'fixed-point', 'file': 'gram.lark'})
		ctx.case('load', True)
		ctx.case('load2', True)
		return
	if ctx.shard == 0:
		for sig, detail, case in fixed_points():
			ctx.fail(sig, detail, case)
		ctx.label('fixed-point-obligations')

	def body(case: dict) -> None:
		ctx.case(case['text'], nontrivial(case), sample={'grammar': case['text']}, labels=['generated'] + [k for k, v in case['stats'].items() if v])
		for sig, detail in judge(case):
			ctx.fail(sig, detail + f'\n  grammar={case["text"]!r}', {'kind': 'grammar', 'text': case['text'], 'spec': case['spec'], 'stats': case['stats']})

	core.drive(ctx, grammars(), body, total=ctx.budget['grammars'], chunk=100)


def replay(case: dict) -> list[tuple[str, str]]:
	try:
		parser()
	except Exception as e:
		return [(f'engine:cannot-load-own-rules:{type(e).__name__}', str(e)[:300])]
	if case['kind'] == 'fixed-point':
		return [(s, d) for s, d, c in fixed_points() if c['file'] == case['file']]
	return judge(case)


def shrink(failure: dict) -> dict | None:
	if failure['case']['kind'] != 'grammar':
		return None
	sig = failure['sig']
	found = core.minimize(grammars(), lambda c: any(s == sig for s, _ in judge(c)), seed=0, max_examples=3000)
	if found is None or len(found['text']) >= len(failure['case']['text']):
		return None
	detail = [d for s, d in judge(found) if s == sig][0]
	return dict(failure, case={'kind': 'grammar', 'text': found['text'], 'spec': found['spec'], 'stats': found['stats']}, detail=detail + f'\n  grammar={found["text"]!r}')
