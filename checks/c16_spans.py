"""C16 — a node's source span covers exactly the node's own text."""
import ast
import os

from hypothesis import strategies as st

from vf import core

PROPERTY = 'C16'
LEVEL = 'exploration'
RULE = ('generated (G2: tab/space indentation, multi-line brackets and strings, comment and blank lines) and real (G3) modules, each fresh and after a cache-encoding round trip of the tree; '
	'(i) every positioned terminal slices the source to its value, for every tree entry the terminals inside its span are exactly its descendant terminals, child spans lie inside the parent span, '
	'siblings are ordered and disjoint, node.source_map equals the entry span; (ii) CPython reference: simple statements (pre-order) have the same (line, col, end_line, end_col) as ast, compound statements '
	'start where ast says, and the span sets of calls/attributes/subscripts/list/dict/comprehension/lambda/ternary expressions equal those of the corresponding ast nodes (generated modules); '
	'(iii) ErrorRender(Errors.Semantics(node)) of on-disk modules names <file>:<begin line>, quotes that line (tabs as one blank) and puts carets on columns [begin, end) resp. to the end of the line for multi-line nodes; '
	'non-trivial = a node spanning >= 2 lines and an indented line with a node starting at column > 1; distinct by source hash')
ASSUMPTIONS = [
	'Empty placeholder entries (span (0,0)-(0,0)) and trees that matched nothing (empty meta) have no text and are exempt',
	'CPython 3.12 ast positions are the reference for (ii); expression-level comparison is restricted to generated modules and to contexts outside annotations, decorators, class bases and except types',
]
BUDGET = {
	'quick': {'seconds': 40, 'modules': 500, 'shards': 16},
	'thorough': {'seconds': 560, 'modules': 30000, 'shards': 16},
}

ZERO = ((0, 0), (0, 0))


def span(e) -> tuple:
	m = e.source_map
	return (tuple(m['begin']), tuple(m['end']))


class Src:
	def __init__(self, text: str) -> None:
		self.text = text
		self.starts = [0]
		for i, ch in enumerate(text):
			if ch == '\n':
				self.starts.append(i + 1)

	def off(self, pos: tuple[int, int]) -> int:
		line, col = pos
		if line - 1 >= len(self.starts):
			return len(self.text) + 1
		return self.starts[line - 1] + col - 1


def judge_entries(entry, src: Src, what: str) -> tuple[list[tuple[str, str]], dict]:
	fails: list[tuple[str, str]] = []
	info = {'multiline': False, 'indented_start': False, 'entries': 0}
	terms: list = []  # (begin offset, end offset, entry) in document order

	def walk(e, path: str) -> tuple[int, int]:
		"""Returns the index range of positioned terminals below e."""
		info['entries'] += 1
		first = len(terms)
		s = span(e)
		if e.is_terminal:
			if s != ZERO and not e.is_empty:
				b, en = src.off(s[0]), src.off(s[1])
				if src.text[b:en] != e.value:
					fails.append((f'{what}:token-slice', f'{path}: span {s} addresses {src.text[b:en]!r}, token is {e.value!r}'))
				terms.append((b, en, e))
			return first, len(terms)
		prev_end = None
		for i, c in enumerate(e.children):
			cpath = f'{path}.{c.name}[{i}]'
			walk(c, cpath)
			cs = span(c)
			if cs != ZERO and s != ZERO:
				cb, ce = src.off(cs[0]), src.off(cs[1])
				if cb < src.off(s[0]) or ce > src.off(s[1]):
					fails.append((f'{what}:child-outside-parent', f'{cpath} {cs} not inside {path} {s}'))
				if prev_end is not None and cb < prev_end:
					fails.append((f'{what}:siblings-overlap', f'{cpath} {cs} begins before the previous sibling ends'))
				if ce < cb:
					fails.append((f'{what}:negative-span', f'{cpath} {cs}'))
				prev_end = ce
		last = len(terms)
		if s != ZERO:
			b, en = src.off(s[0]), src.off(s[1])
			if s[1][0] > s[0][0]:
				info['multiline'] = True
			if s[0][1] > 1 and src.text[src.starts[s[0][0] - 1]:src.starts[s[0][0] - 1] + 1] in ' \t':
				info['indented_start'] = True
			for tb, te, t in terms[first:last]:
				if tb < b or te > en:
					fails.append((f'{what}:descendant-outside-span', f'{path} {s}: token {t.value!r} at {span(t)} lies outside'))
					break
			if first > 0 and terms[first - 1][1] > b and last > first:
				fails.append((f'{what}:foreign-token-inside-span', f'{path} {s}: preceding token {terms[first - 1][2].value!r} reaches into it'))
			marker.append((path, b, en, first, last))
		return first, last

	marker: list = []
	walk(entry, str(entry.name))
	# a following terminal must not lie inside an earlier entry's span
	for path, b, en, first, last in marker:
		if last < len(terms) and last > first and terms[last][0] < en:
			fails.append((f'{what}:foreign-token-inside-span', f'{path}: following token {terms[last][2].value!r} lies inside'))
			break
	for i in range(1, len(terms)):
		if terms[i][0] < terms[i - 1][1]:
			fails.append((f'{what}:tokens-out-of-order', f'{terms[i - 1][2].value!r} then {terms[i][2].value!r}'))
			break
	return fails[:6], info


# ---- (ii) CPython reference ------------------------------------------------------------

SIMPLE_TAGS = {'assign', 'anno_assign', 'aug_assign', 'class_var_assign', 'class_var_anno_assign', 'class_assign', 'template_assign', 'return_stmt', 'import_stmt', 'raise_stmt',
	'pass_stmt', 'del_stmt', 'yield_stmt', 'assert_stmt', 'break_stmt', 'continue_stmt'}
COMPOUND_TAGS = {'function_def_raw': ast.FunctionDef, 'class_def_raw': ast.ClassDef, 'if_stmt': ast.If, 'while_stmt': ast.While, 'for_stmt': ast.For, 'try_stmt': ast.Try, 'with_stmt': ast.With}
EXPR_TAGS = {'funccall': ast.Call, 'getattr': ast.Attribute, 'getitem': ast.Subscript, 'list': ast.List, 'dict': ast.Dict, 'list_comp': ast.ListComp, 'dict_comp': ast.DictComp,
	'lambdadef': ast.Lambda, 'ternary_test': ast.IfExp}
STATEMENT_PARENTS = {'file_input', 'block'}


def cpython_reference(tree: ast.AST, src: Src) -> tuple[list, list, dict]:
	simple: list = []
	compound: list = []
	exprs: dict = {cls: [] for cls in EXPR_TAGS.values()}

	def pos(n) -> tuple:
		def col(line: int, byte_col: int) -> int:
			text = src.text[src.starts[line - 1]:]
			return len(text.encode('utf-8')[:byte_col].decode('utf-8')) + 1
		return ((n.lineno, col(n.lineno, n.col_offset)), (n.end_lineno, col(n.end_lineno, n.end_col_offset)))

	def visit_expr(n) -> None:
		for sub in ast.walk(n):
			if type(sub) in exprs:
				exprs[type(sub)].append(pos(sub))

	def visit_stmt(n) -> None:
		if isinstance(n, (ast.FunctionDef, ast.ClassDef, ast.If, ast.While, ast.For, ast.Try, ast.With)):
			compound.append((type(n), pos(n)[0]))
			if isinstance(n, ast.FunctionDef):
				for a in n.args.posonlyargs + n.args.args + n.args.kwonlyargs:
					pass
				for d in n.args.defaults + [k for k in n.args.kw_defaults if k is not None]:
					visit_expr(d)
				for d in n.decorator_list:
					if isinstance(d, ast.Call):
						for a in d.args:
							visit_expr(a)
						for k in d.keywords:
							visit_expr(k.value)
			elif isinstance(n, ast.ClassDef):
				for d in n.decorator_list:
					if isinstance(d, ast.Call):
						for a in d.args:
							visit_expr(a)
						for k in d.keywords:
							visit_expr(k.value)
			elif isinstance(n, (ast.If, ast.While)):
				visit_expr(n.test)
			elif isinstance(n, ast.For):
				visit_expr(n.iter)
			elif isinstance(n, ast.With):
				for it in n.items:
					visit_expr(it.context_expr)
			for field in ('body', 'orelse', 'handlers', 'finalbody'):
				for sub in getattr(n, field, []):
					if isinstance(sub, ast.ExceptHandler):
						for s2 in sub.body:
							visit_stmt(s2)
					elif isinstance(n, ast.If) and field == 'orelse' and len(n.orelse) == 1 and isinstance(sub, ast.If) and src.text[src.off(pos(sub)[0]):src.off(pos(sub)[0]) + 4] == 'elif':
						visit_elif(sub)
					else:
						visit_stmt(sub)
			return
		simple.append((type(n).__name__, pos(n)))
		if isinstance(n, ast.AnnAssign) and isinstance(n.annotation, ast.Name) and n.annotation.id == 'TypeAlias':
			pass  # class_assign: the right-hand side is a type expression for tranp
		elif isinstance(n, ast.Assign) and isinstance(n.value, ast.Call) and isinstance(n.value.func, ast.Name) and n.value.func.id in ('TypeVar', 'TypeVarTuple', 'ParamSpec', 'TypedDict'):
			pass  # template_assign / class_assign
		elif isinstance(n, ast.AnnAssign):
			visit_expr(n.target)
			if n.value is not None:
				visit_expr(n.value)
		elif isinstance(n, ast.ImportFrom):
			pass
		else:
			visit_expr(n)

	def visit_elif(n: ast.If) -> None:
		visit_expr(n.test)
		for sub in n.body:
			visit_stmt(sub)
		if len(n.orelse) == 1 and isinstance(n.orelse[0], ast.If) and src.text[src.off(pos(n.orelse[0])[0]):src.off(pos(n.orelse[0])[0]) + 4] == 'elif':
			visit_elif(n.orelse[0])
		else:
			for sub in n.orelse:
				visit_stmt(sub)

	for s in tree.body:
		visit_stmt(s)
	return simple, compound, exprs


def judge_against_cpython(entry, src: Src, with_exprs: bool) -> list[tuple[str, str]]:
	fails: list[tuple[str, str]] = []
	try:
		tree = ast.parse(src.text)
	except (SyntaxError, ValueError):
		return []
	simple_ref, compound_ref, exprs_ref = cpython_reference(tree, src)
	simple: list = []
	compound: list = []
	exprs: dict = {cls: [] for cls in EXPR_TAGS.values()}
	special_assign = {'class_assign', 'template_assign'}

	def walk(e, parent_tag: str, in_type: bool) -> None:
		tag = str(e.name)
		if not e.has_child:
			return
		is_stmt_pos = parent_tag in STATEMENT_PARENTS
		if is_stmt_pos and tag not in COMPOUND_TAGS and tag not in ('function_def', 'class_def', 'comment_stmt', 'if_stmt', 'block') and span(e) != ZERO:
			simple.append((tag, span(e)))
		if tag in COMPOUND_TAGS and span(e) != ZERO:
			compound.append((COMPOUND_TAGS[tag], span(e)[0]))
		typed = in_type or tag.startswith('typed_') or tag in ('decorator', 'inherit_arguments', 'template_params', 'import_stmt') or tag in special_assign
		if tag in EXPR_TAGS and not typed and span(e) != ZERO:
			exprs[EXPR_TAGS[tag]].append(span(e))
		for c in e.children:
			# arguments of a decorator are ordinary expressions again
			walk(c, tag, typed and not (tag == 'decorator' and str(c.name) == 'arguments'))

	walk(entry, '', False)
	if len(simple) != len(simple_ref):
		fails.append(('cpython:simple-stmt-count', f'{len(simple)} simple statements, ast has {len(simple_ref)}'))
	else:
		for (tag, s), (kind, r) in zip(simple, simple_ref):
			if s != r:
				fails.append((f'cpython:simple-stmt-span:{tag}', f'{tag} span {s}, ast {kind} {r}: {src.text[src.off(r[0]):src.off(r[1])]!r}'))
				break
	if [c for c, _ in compound] != [c for c, _ in compound_ref]:
		fails.append(('cpython:compound-stmt-sequence', f'{[c.__name__ for c, _ in compound][:8]} vs ast {[c.__name__ for c, _ in compound_ref][:8]}'))
	else:
		for (cls, b), (_, rb) in zip(compound, compound_ref):
			if b != rb:
				fails.append((f'cpython:compound-stmt-begin:{cls.__name__}', f'{cls.__name__} begins at {b}, ast {rb}'))
				break
	if with_exprs:
		for cls in exprs:
			if sorted(exprs[cls]) != sorted(exprs_ref[cls]):
				only_t = sorted(set(exprs[cls]) - set(exprs_ref[cls]))[:3]
				only_p = sorted(set(exprs_ref[cls]) - set(exprs[cls]))[:3]
				fails.append((f'cpython:expr-spans:{cls.__name__}', f'only tranp {[(s, src.text[src.off(s[0]):src.off(s[1])]) for s in only_t]}, only ast {[(s, src.text[src.off(s[0]):src.off(s[1])]) for s in only_p]}'))
	return fails


# ---- (iii) rendering -------------------------------------------------------------------

def judge_render(node, src: Src, filename: str) -> str | None:
	from rogw.tranp.errors import Errors
	from rogw.tranp.view.error_render import ErrorRender
	m = node.source_map
	s = (tuple(m['begin']), tuple(m['end']))
	if s == ZERO:
		return None
	try:
		raise Errors.Semantics(node)
	except Errors.Semantics as e:
		try:
			text = str(ErrorRender(e))
		except Exception:
			return None  # a failing renderer is C07's subject; C16 judges the region that *is* printed
	lines = text.split('\n')
	k = next((i for i, l in enumerate(lines) if l == 'via Node:'), None)
	if k is None:
		return 'no quotation in the rendered error'
	want_file = f'  {filename}:{s[0][0]}'
	if lines[k + 1] != want_file:
		return f'file line {lines[k + 1]!r}, expected {want_file!r}'
	raw = src.text[src.starts[s[0][0] - 1]:].split('\n')[0]
	want_src = '    >>> ' + raw.replace('\t', ' ')
	if lines[k + 2] != want_src:
		return f'quoted line {lines[k + 2]!r}, expected {want_src!r}'
	begin = s[0][1] - 1
	end = s[1][1] - 1 if s[0][0] == s[1][0] else len(raw)
	want_mark = ' ' * 8 + ' ' * begin + '^' * max(1, end - begin)
	if lines[k + 3] != want_mark:
		return f'caret line {lines[k + 3]!r}, expected {want_mark!r} for span {s}'
	return None


_app = None


def app(scratch: str):
	global _app
	if _app is None:
		from vf import sut
		_app = sut.TreeApp(scratch)
		os.chdir(scratch)
	return _app


@st.composite
def cases(draw):
	from vf import syngen
	rnd = draw(st.randoms(use_true_random=False))
	src, stats = syngen.gen_module(rnd, rnd.choice(['mixed', 'mixed', 'mixed', 'expr']))
	if rnd.random() < 0.25:
		# a comment line (indented like the line after it) holding a character that str.splitlines() treats as a line boundary although the parser does not
		# (form feed "page break", file / group / record separators): lines are counted by '\n' only
		lines = src.split('\n')
		k = rnd.randint(0, len(lines) - 1)
		if not any(q in '\n'.join(lines[:k]) for q in ('"""', "'''")) or '\n'.join(lines[:k]).count('"""') % 2 == 0:
			probe = '\n'.join(lines[:k])
			try:
				import ast as _ast
				_ast.parse(probe + '\n') if probe.strip() else None
				inside = False
			except SyntaxError:
				inside = True   # k is inside a bracket / string / block header continuation: leave the text alone
			if not inside:
				follow = lines[k] if k < len(lines) else ''
				lines.insert(k, follow[:len(follow) - len(follow.lstrip(' \t'))] + '#' + rnd.choice(['\x0c', '\x1c', '\x1d', '\x1e', '\x0b']) + ' page')
				src = '\n'.join(lines)
	return {'source': src, 'picks': [rnd.randint(0, 10 ** 6) for _ in range(12)]}


def judge(scratch: str, source: str, picks: list[int], with_exprs: bool) -> tuple[list[tuple[str, str]], dict]:
	from rogw.tranp.errors import Errors
	from rogw.tranp.implements.syntax.lark.entry import EntryOfLark, Serialization
	from rogw.tranp.syntax.ast.finder import ASTFinder
	from vf import sut
	import json

	a = app(scratch)
	if not source.endswith('\n'):
		source += '\n'
	try:
		entry = a.parse(source)
	except Exception:
		return [('OUT', 'lark')], {}
	src = Src(source)
	fails, info = judge_entries(entry, src, 'fresh')
	restored = EntryOfLark(Serialization.loads(json.loads(json.dumps(Serialization.dumps(entry.source)))))
	f2, _ = judge_entries(restored, src, 'restored')
	fails += [f for f in f2 if f[0].replace('restored', 'fresh') not in {s for s, _ in fails}]
	fails += judge_against_cpython(entry, src, with_exprs)
	if fails:
		return fails, info
	# nodes: spans via path lookup, and the rendered quotation (fresh and restored container)
	with open(os.path.join(scratch, '__main__.py'), 'w') as f:
		f.write(source)
	try:
		paths = [str(k) for k in ASTFinder().full_pathfy(entry).keys()]
		entries = list(ASTFinder().full_pathfy(entry).values())
		for label, root in (('fresh', entry), ('restored', restored)):
			nodes = sut.nodes_of(a.nodes_for(root))
			for pick in picks:
				i = pick % len(paths)
				try:
					node = nodes.by(paths[i])
				except Errors.Error:
					continue
				if (tuple(node.source_map['begin']), tuple(node.source_map['end'])) != span(entries[i]):
					fails.append((f'{label}:node-span-differs-from-entry', paths[i]))
					break
				err = judge_render(node, src, '__main__.py')
				if err:
					kind = err.split(' ')[0]
					fails.append((f'{label}:render:{kind}', f'{paths[i]} ({type(node).__name__}): {err}'))
					break
	finally:
		os.unlink(os.path.join(scratch, '__main__.py'))
	return fails, info


def shard(ctx: core.Ctx) -> None:
	from vf import corpus, env

	for path in corpus.shard_files(ctx.tier, ctx.shard, ctx.nshards):
		rel = os.path.relpath(path, env.REPO)
		fails, info = judge(ctx.scratch, corpus.read(path), [i * 7919 for i in range(40)], False)
		if fails and fails[0][0] == 'OUT':
			ctx.discard('g3-rejected-by-lark')
			continue
		ctx.case(rel, info.get('multiline', False) and info.get('indented_start', False), labels=['g3-module'])
		for sig, detail in fails:
			ctx.fail(sig, f'{rel}: {detail}', {'kind': 'file', 'path': rel})
		if ctx.out_of_time():
			break

	def body(case: dict) -> None:
		fails, info = judge(ctx.scratch, case['source'], case['picks'], True)
		if fails and fails[0][0] == 'OUT':
			ctx.discard('rejected-by-lark')
			ctx.evaluations += 1
			return
		nontrivial = info.get('multiline', False) and info.get('indented_start', False)
		ctx.case(case['source'], nontrivial, sample={'source': case['source']} if len(case['source']) < 300 else None,
			labels=['g2-module'] + [k for k in ('multiline', 'indented_start') if info.get(k)])
		for sig, detail in fails:
			ctx.fail(sig, detail + f'\n  source={case["source"]!r}', {'kind': 'module', 'source': case['source'], 'picks': case['picks']})

	core.drive(ctx, cases(), body, total=ctx.budget['modules'], chunk=50)


def replay(case: dict) -> list[tuple[str, str]]:
	from vf import corpus, env
	global _app
	cwd = os.getcwd()
	with env.Scratch('c16r') as s:
		_app = None
		try:
			if case['kind'] == 'file':
				fails, _ = judge(s.path, corpus.read(os.path.join(env.REPO, case['path'])), [i * 7919 for i in range(40)], False)
			else:
				fails, _ = judge(s.path, case['source'], case['picks'], True)
			return [f for f in fails if f[0] != 'OUT']
		finally:
			_app = None
			os.chdir(cwd)
