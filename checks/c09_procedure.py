"""C09 — every handler receives exactly the results of its own children (identity-valued run)."""
import os

from hypothesis import strategies as st

from vf import core

PROPERTY = 'C09'
LEVEL = 'exploration'
RULE = ('node trees of generated (G2) and real (G3) modules processed by a Procedure whose handlers return the node itself: (1) on_fallback(**event) for every node, (2) one generated handler per '
	'node class whose parameters are exactly prop_keys() (so a missing/extra key surfaces as InvalidSchema); per visited node the event keys equal prop_keys() in order, list-annotated properties '
	'receive lists and their elements are, in order, getattr(node, key); single properties receive getattr(node, key); the handler calls are exactly procedural() + [root] in that order and every property node is processed before its owner; '
	'exec returns the root; (3) nested exec started from inside handlers of generated node kinds returns that subtree root and leaves the outer run intact; '
	'(4) a handler that appends to every list it is handed (mode editing): no other event ever shows the edit; non-trivial = a node with >= 2 list properties of different lengths or an empty optional child next to a non-empty sibling; distinct by source hash')
ASSUMPTIONS = [
	'a module whose node properties raise an application error while being read (ill-formed for the node model) is outside the domain and counted as discarded',
	'node equality is (module_path, full_path), as Node.__eq__ defines it',
]
BUDGET = {
	'quick': {'seconds': 40, 'modules': 500, 'shards': 16},
	'thorough': {'seconds': 560, 'modules': 30000, 'shards': 16, 'typed_seconds': 120},
}


def same(a, b) -> bool:
	from rogw.tranp.syntax.node.node import Node
	return isinstance(a, Node) and isinstance(b, Node) and a.module_path == b.module_path and a.full_path == b.full_path


def is_list_prop(node, key: str) -> bool:
	anno = getattr(type(node), key).fget.__annotations__['return']
	return getattr(anno, '__origin__', None) is list


class Recorder:
	def __init__(self) -> None:
		self.order: list = []
		self.events: dict = {}
		self.fails: list[tuple[str, str]] = []
		self.nontrivial = False
		self.nested_done = 0
		self.aborted = False


class Abort(Exception):
	pass


_shared: dict = {}   # one long-lived Procedure per shard (mode 'reused'): consecutive modules share the module path '__main__', so nodes of two
                     # revisions are equal by (module path, full path) although their trees differ — what an interactive session does


def run(root, mode: str, nested_kinds: set[str], abort_at: int | None = None, reuse: bool = False, editing: bool = False, side=None) -> Recorder:
	"""mode: 'fallback' | 'exact'. With abort_at a first run on the same Procedure is aborted by an exception raised in the handler of the
	abort_at-th node (the caller catches it, as the interactive mode does); the judged run is the one after it."""
	from rogw.tranp.errors import Errors
	from rogw.tranp.semantics.procedure import Procedure

	rec = Recorder()
	proc = Procedure() if not reuse else _shared.setdefault('proc', Procedure())
	depth = {'n': 0}
	aborting = {'left': abort_at}

	def record(node, event: dict):
		if aborting['left'] is not None:
			aborting['left'] -= 1
			if aborting['left'] <= 0:
				aborting['left'] = None
				rec.aborted = True
				raise Abort()
			return node
		if side is not None and depth['n'] == 0:
			side(node)  # what real handlers do on the way: ask for the type of the node (which reads properties of other nodes)
		if depth['n'] == 0:
			rec.order.append(node)
			rec.events[(node.module_path, node.full_path)] = (node, {k: list(v) if isinstance(v, list) else v for k, v in event.items()} if editing else event)
			if editing:
				# a handler that edits the lists it was handed for its own node (a chained plugin handler changing what the next one sees):
				# the lists belong to this event alone, so no other node may ever see the edit
				for v in event.values():
					if isinstance(v, list):
						v.append(node)
		if depth['n'] == 0 and type(node).__name__ in nested_kinds and rec.nested_done < 6:
			# nested processing of one of the node's own property subtrees, as Reflections.type_of / Py2Cpp.transpile(annotation) do
			rec.nested_done += 1
			for key in node.prop_keys():
				value = getattr(node, key)
				target = value[0] if isinstance(value, list) and value else (value if not isinstance(value, list) else None)
				if target is None:
					continue
				depth['n'] += 1
				try:
					got = proc.exec(target)
				finally:
					depth['n'] -= 1
				if not same(got, target):
					rec.fails.append(('nested:result', f'nested exec({target!r}) returned {got!r}'))
				break
		return node

	if mode == 'fallback' and reuse:
		if 'handler' not in _shared:
			_shared['handler'] = True
			proc.on('on_fallback', lambda node, **event: _shared['record'](node, event))
		_shared['record'] = record
	elif mode == 'fallback':
		proc.on('on_fallback', lambda node, **event: record(node, event))
	else:
		made: set[str] = set()

		def ensure(node) -> None:
			name = f'on_{node.classification}'
			if name in made:
				return
			made.add(name)
			keys = node.prop_keys()
			params = ''.join(f', {k}' for k in keys)
			body = '{' + ', '.join(f'{k!r}: {k}' for k in keys) + '}'
			proc.on(name, eval(f'lambda node{params}: record(node, {body})', {'record': record}))

		# handlers are keyed by classification: register one per classification met in the flattened tree
		for n in [*root.procedural(), root]:
			ensure(n)
	if abort_at is not None:
		try:
			proc.exec(root)
		except Abort:
			pass
		except Errors.Fatal as e:  # the procedure reports an unknown exception of a handler as Errors.Fatal(node, 'Unhandled error', cause)
			if not isinstance(e.__cause__, Abort):
				raise
		aborting['left'] = None
	try:
		result = proc.exec(root)
	except Errors.Logic as e:
		if not any(isinstance(a, str) and a in ('Invalid number of stacks', 'Stack is empty') for a in e.args):
			raise  # an application error raised by a node property, not by the procedure's stack discipline
		rec.fails.append(('stack:logic', f'{e}'))
		return rec
	except Errors.InvalidSchema as e:
		rec.fails.append(('event:invalid-schema', f'{e}'[:500]))
		return rec
	if not same(result, root):
		rec.fails.append(('exec:result', f'exec(root) returned {result!r}'))
	if abort_at is None and not reuse and len(proc._Procedure__stacks) != 0:  # private state: only judged for runs without a caught abort before them
		rec.fails.append(('stack:depth', f'{len(proc._Procedure__stacks)} stacks left after exec'))
	return rec


def check_events(root, rec: Recorder) -> None:
	from rogw.tranp.errors import Errors
	seen: dict = {}
	last: dict = {}
	for i, n in enumerate(rec.order):
		k = (n.module_path, n.full_path)
		seen.setdefault(k, i)  # a node reachable through two properties (e.g. Class.inherits / template_types) is processed once per property
		last[k] = i
	for key_, (node, event) in rec.events.items():
		keys = node.prop_keys()
		if list(event.keys()) != list(reversed(keys)) and list(event.keys()) != keys:
			rec.fails.append(('event:keys', f'{node!r}: event keys {list(event.keys())} prop keys {keys}'))
			return
		lens = []
		empties, non_empties = 0, 0
		for k in keys:
			try:
				want = getattr(node, k)
			except Errors.Error:
				continue
			got = event[k]
			if is_list_prop(node, k):
				if not isinstance(got, list):
					rec.fails.append(('event:list-as-single', f'{node!r}.{k}: handler received {got!r}'))
					return
				lens.append(len(want))
				if len(got) != len(want) or not all(same(x, y) for x, y in zip(got, want)):
					rec.fails.append(('event:list-elements', f'{node!r}.{k}: received {got!r}, property yields {want!r}'))
					return
				owners = want
			else:
				if isinstance(got, list):
					rec.fails.append(('event:single-as-list', f'{node!r}.{k}: handler received {got!r}'))
					return
				if not same(got, want):
					rec.fails.append(('event:single-value', f'{node!r}.{k}: received {got!r}, property yields {want!r}'))
					return
				owners = [want]
				if type(want).__name__ in ('Empty', 'Proxy') or want.tag == '__empty__':
					empties += 1
				else:
					non_empties += 1
			for child in owners:
				ck = (child.module_path, child.full_path)
				if ck not in seen:
					rec.fails.append(('visit:child-not-visited', f'{child!r} of {node!r}.{k}'))
					return
				if seen[ck] > last[key_]:
					rec.fails.append(('visit:child-after-owner', f'{child!r} of {node!r}.{k}'))
					return
		if len(set(lens)) >= 2 or (empties and non_empties):
			rec.nontrivial = True
	flat = [*root.procedural(), root]
	if len(flat) != len(rec.order) or not all(same(a, b) for a, b in zip(flat, rec.order)):
		rec.fails.append(('visit:order', f'{len(rec.order)} handler calls for {len(flat)} nodes of procedural()'))


def judge(app, source: str, nested_kinds: list[str], abort_at: int | None = None) -> tuple[list[tuple[str, str]], dict]:
	from rogw.tranp.errors import Errors
	try:
		entry = app.parse(source)
	except Exception:
		return [('OUT', 'lark')], {}
	root = app.nodes_for(entry)
	info = {'nontrivial': False, 'nodes': 0}
	fails: list[tuple[str, str]] = []
	for mode in ('fallback', 'exact') + (('after-abort',) if abort_at else ()) + ('reused', 'editing'):
		try:
			if mode == 'after-abort':
				rec = run(root, 'fallback', set(), abort_at)
				info['aborted'] = rec.aborted
			elif mode == 'reused':
				rec = run(root, 'fallback', set(), None, reuse=True)
			elif mode == 'editing':
				rec = run(root, 'fallback', set(), None, editing=True)
			else:
				rec = run(root, mode, set(nested_kinds) if mode == 'fallback' else set())
			if not rec.fails:
				check_events(root, rec)
		except Errors.Error as e:
			return [('OUT', 'node-props-raise:' + type(e).__name__)], {}
		except RecursionError:
			return [('OUT', 'recursion')], {}
		info['nontrivial'] = info['nontrivial'] or rec.nontrivial
		info['nodes'] = len(rec.order)
		info['nested'] = info.get('nested', 0) + rec.nested_done
		fails += [(f'{mode}:{s}', d) for s, d in rec.fails]
		if fails:
			break
	return fails, info


_app = None


def app(scratch: str):
	global _app
	if _app is None:
		from vf import sut
		_app = sut.TreeApp(scratch)
	return _app


KINDS = ['Function', 'Method', 'Class', 'If', 'For', 'MoveAssign', 'AnnoAssign', 'FuncCall', 'Return', 'Sum', 'List', 'Dict', 'Parameter', 'While', 'Try', 'Lambda', 'TernaryOperator', 'Comparison']


@st.composite
def cases(draw):
	from vf import syngen
	rnd = draw(st.randoms(use_true_random=False))
	src, stats = syngen.gen_module(rnd, rnd.choice(['mixed', 'mixed', 'mixed', 'expr']), friendly=rnd.random() < 0.85)
	return {'source': src, 'nested': rnd.sample(KINDS, rnd.randint(0, 4)), 'abort_at': rnd.choice([None, None, 2, 3, 5, 8, 13, 21])}


GENERIC_TAIL = '''
T_Z = TypeVar('T_Z')

class ZGB(Generic[T_Z]):
	zv: T_Z
	zl: list[T_Z]

	def __init__(self, a_z: T_Z) -> None:
		self.zv = a_z
		self.zl = [a_z]

class ZGS(ZGB[int]):
	def zread(self) -> int:
		return self.zv + len(self.zl)
'''

_typed_app = None


@st.composite
def typed_cases(draw, exclude: frozenset = frozenset()):
	"""Well-typed G1 programs (plus a class that derives from a specialised generic base and reads an inherited attribute of the type
	variable's type), processed while every handler asks for the type of its node, as the handlers of the transpiler do."""
	from vf import pygen
	rnd = draw(st.randoms(use_true_random=False))
	src = pygen.gen_program(rnd, set(exclude), size=1)['source']
	if 'from typing import Generic, TypeVar' not in src:
		src = 'from typing import Generic, TypeVar\n' + src
	return {'source': src + GENERIC_TAIL, 'typed': True}


def judge_typed(scratch: str, source: str) -> tuple[list[tuple[str, str]], dict]:
	global _typed_app
	from rogw.tranp.errors import Errors
	from rogw.tranp.semantics.reflections import Reflections
	from vf import sut
	if _typed_app is None:
		_typed_app = sut.MemApp(scratch)
	a = _typed_app
	try:
		root = a.load_main(source).entrypoint
	except Errors.Error as e:
		return [('OUT', 'rejected-at-load:' + type(e).__name__)], {}
	reflections = a.resolve(Reflections)
	asked = {'n': 0}

	def side(node) -> None:
		try:
			reflections.type_of(node)
			asked['n'] += 1
		except (Errors.Error, RecursionError):
			pass

	try:
		rec = run(root, 'fallback', set(), side=side)
		if not rec.fails:
			check_events(root, rec)
	except Errors.Error as e:
		return [('OUT', 'node-props-raise:' + type(e).__name__)], {}
	return [(f'typed:{sig}', d) for sig, d in rec.fails], {'nontrivial': asked['n'] > 20, 'nodes': len(rec.order), 'typed_nodes': asked['n']}


def shard(ctx: core.Ctx) -> None:
	from vf import corpus, env

	for path in corpus.shard_files(ctx.tier, ctx.shard, ctx.nshards):
		rel = os.path.relpath(path, env.REPO)
		fails, info = judge(app(ctx.scratch), corpus.read(path), ['Function', 'Method', 'Class', 'If', 'FuncCall'], 40)
		if fails and fails[0][0] == 'OUT':
			ctx.discard('g3-' + fails[0][1])
			continue
		ctx.case(rel, info['nontrivial'], labels=['g3-module'])
		for sig, detail in fails:
			ctx.fail(sig, f'{rel}: {detail}', {'kind': 'file', 'path': rel})
		if ctx.out_of_time():
			break

	def body(case: dict) -> None:
		fails, info = judge(app(ctx.scratch), case['source'], case['nested'], case.get('abort_at'))
		if fails and fails[0][0] == 'OUT':
			ctx.discard(fails[0][1])
			ctx.evaluations += 1
			return
		ctx.case(case['source'], info['nontrivial'], sample={'source': case['source'], 'nested_exec_in': case['nested'], 'nodes': info['nodes']} if len(case['source']) < 300 else None,
			labels=['g2-module'] + (['nested-exec'] if info.get('nested') else []) + (['run-after-caught-abort'] if info.get('aborted') else []))
		for sig, detail in fails:
			ctx.fail(sig, detail + f'\n  source={case["source"]!r}', {'kind': 'module', 'source': case['source'], 'nested': case['nested'], 'abort_at': case.get('abort_at')})

	core.drive(ctx, cases(), body, total=ctx.budget['modules'], chunk=50)

	def typed_body(case: dict) -> None:
		fails, info = judge_typed(ctx.scratch, case['source'])
		if fails and fails[0][0] == 'OUT':
			ctx.discard(fails[0][1])
			ctx.evaluations += 1
			return
		ctx.case(case['source'], info['nontrivial'], labels=['g1-program-with-type-inference-in-handlers'])
		for sig, detail in fails:
			ctx.fail(sig, detail, {'kind': 'typed', 'source': case['source']})

	ctx.deadline += float(ctx.budget.get('typed_seconds', 15))
	core.drive(ctx, typed_cases(core.frontend_exclusions() | frozenset({'optional', 'iterator-class'})), typed_body, total=max(4, ctx.budget['modules'] // 40), chunk=10)


def replay(case: dict) -> list[tuple[str, str]]:
	from vf import corpus, env
	global _app
	with env.Scratch('c09r') as s:
		_app = None
		try:
			if case['kind'] == 'typed':
				global _typed_app
				_typed_app = None
				fails, _ = judge_typed(s.path, case['source'])
			elif case['kind'] == 'file':
				fails, _ = judge(app(s.path), corpus.read(os.path.join(env.REPO, case['path'])), ['Function', 'Method', 'Class', 'If', 'FuncCall'], 40)
			else:
				fails, _ = judge(app(s.path), case['source'], case['nested'], case.get('abort_at'))
			return [f for f in fails if f[0] != 'OUT']
		finally:
			_app = None
