"""C03 — inferred static types equal the types values have at run time (differential, over G1 programs)."""
import ast
import enum

from hypothesis import strategies as st

from vf import core

PROPERTY = 'C03'
LEVEL = 'exploration'
RULE = ('G1 typed programs with entry calls; every executed expression that CPython\'s ast and tranp\'s node tree both have (matched by source span) is wrapped in a probe that records the run-time type '
	'description (int/bool/float/str, list<T>, dict<K, V>, tuple<..>, class, enum class, None; joined over the observed values, empty containers give wildcards); the static side is '
	'domain_name_for_debug(Reflections.type_of(node)) for the node with the same span, and for every assignment target the declared symbol vs. the assigned values; descriptions must unify '
	'(Union<T, None> admits T and None) and must never be Unknown for an executed, non-empty value; non-trivial = an un-annotated declaration of container or class type and a probe inside a comprehension, closure or method; distinct by source hash')
ASSUMPTIONS = [
	'only executed expressions are judged; callables, types, iterators and dict views have no value description and are skipped',
	'the generator keeps objects in variables of their exact class and does not use bools arithmetically',
	'programs the transpiler front end rejects while loading (known C01 findings excluded by construction) are counted, not judged here',
]
BUDGET = {
	'quick': {'seconds': 50, 'programs': 120, 'shards': 16},
	'thorough': {'seconds': 560, 'programs': 6000, 'shards': 16},
}


# ---- run-time side -----------------------------------------------------------------------

def describe(v) -> str | None:
	if isinstance(v, bool):
		return 'bool'
	if isinstance(v, enum.Enum):
		return type(v).__name__
	if isinstance(v, int):
		return 'int'
	if isinstance(v, float):
		return 'float'
	if isinstance(v, str):
		return 'str'
	if v is None:
		return 'None'
	if isinstance(v, list):
		return 'list<' + join([describe(x) for x in v]) + '>'
	if isinstance(v, tuple):
		parts = [describe(x) for x in v]
		return None if any(p is None for p in parts) else 'tuple<' + ', '.join(parts) + '>'
	if isinstance(v, dict):
		return 'dict<' + join([describe(k) for k in v]) + ', ' + join([describe(x) for x in v.values()]) + '>'
	if isinstance(v, type) or callable(v):
		return None
	gname = type(v).__name__
	if gname[:1] == 'G' and gname[1:].isdigit() and hasattr(v, f'g{gname[1:]}0'):
		return f'{gname}<{describe(getattr(v, "g" + gname[1:] + "0")) or "*"}>'  # generic user class: the type argument is the type of its T-typed field
	if type(v).__module__ == '__vf_main__' or hasattr(type(v), '__vf_fields__') or type(v).__name__.startswith('C'):
		return type(v).__name__ if not type(v).__module__.startswith(('builtins', 'collections')) else None
	return None


def join(parts: list) -> str:
	parts = [p for p in parts if p is not None]
	if not parts:
		return '*'
	out = parts[0]
	for p in parts[1:]:
		out = merge(out, p)
	return out


def merge(a: str, b: str) -> str:
	"""Join of two descriptions (wildcards give way). Two values of one class whose arguments disagree stay two alternatives
	(list<int> and list<float> join to list<int>|list<float>, not to list<int|float>: no single value was a mixed list)."""
	if a == b or b == '*':
		return a
	if a == '*':
		return b
	alts_a, alts_b = top_level_alternatives(a), top_level_alternatives(b)
	if len(alts_a) > 1 or len(alts_b) > 1:
		out = list(alts_a)
		for y in alts_b:
			for i, x in enumerate(out):
				m = merge(x, y)
				if len(top_level_alternatives(m)) == 1:
					out[i] = m
					break
			else:
				out.append(y)
		return '|'.join(out)
	ha, ia = split(a)
	hb, ib = split(b)
	if ha == hb and len(ia) == len(ib):
		args = [merge(x, y) for x, y in zip(ia, ib)]
		if all(len(top_level_alternatives(m)) <= max(len(top_level_alternatives(x)), len(top_level_alternatives(y))) for m, x, y in zip(args, ia, ib)):
			return ha + ('<' + ', '.join(args) + '>' if ia else '')
	return f'{a}|{b}'


def split(t: str) -> tuple[str, list[str]]:
	if '<' not in t:
		return t, []
	head, rest = t.split('<', 1)
	rest = rest[:-1]
	parts, depth, cur = [], 0, ''
	for ch in rest:
		if ch == '<':
			depth += 1
		elif ch == '>':
			depth -= 1
		if ch == ',' and depth == 0:
			parts.append(cur.strip())
			cur = ''
		else:
			cur += ch
	if cur.strip():
		parts.append(cur.strip())
	return head, parts


def top_level_alternatives(t: str) -> list[str]:
	parts, depth, cur = [], 0, ''
	for ch in t:
		if ch == '<':
			depth += 1
		elif ch == '>':
			depth -= 1
		if ch == '|' and depth == 0:
			parts.append(cur)
			cur = ''
		else:
			cur += ch
	return parts + [cur]


BASES: dict[str, str] = {}   # class -> base class of the program under judgement


def unify(static: str, runtime: str) -> bool:
	if runtime == '*' or static == runtime:
		return True
	if static.startswith('T_G') and static[3:].isdigit():
		return True  # inside the generic class body the static type is the type variable itself
	base = BASES.get(runtime)
	while base:  # an instance of a subclass seen through a name declared with the base class (e.g. `self` in an inherited method)
		if base == static:
			return True
		base = BASES.get(base)
	alts = top_level_alternatives(runtime)
	if len(alts) > 1:
		return all(unify(static, x) for x in alts)  # a join of several observed values: every one of them must be admitted
	if '|' in runtime and 'T_G' not in static:
		return False
	hs, is_ = split(static)
	hr, ir = split(runtime)
	if hs == 'Union':
		return any(unify(x, runtime) for x in is_)
	if hs != hr or len(is_) != len(ir):
		return False
	return all(unify(x, y) for x, y in zip(is_, ir))


class Probe(ast.NodeTransformer):
	"""Wrap every value expression in vfp(id, expr); remember (id -> span, context)."""

	SKIP = (ast.Lambda, ast.Starred, ast.Slice, ast.GeneratorExp, ast.JoinedStr, ast.FormattedValue, ast.keyword)

	def __init__(self) -> None:
		self.spans: dict[int, tuple] = {}
		self.inside: dict[int, str] = {}
		self.targets: dict[int, tuple] = {}   # probe id of the value -> span of the single Name target
		self.ctx: list[str] = []
		self.n = 0

	def wrap(self, node):
		self.n += 1
		self.spans[self.n] = ((node.lineno, node.col_offset + 1), (node.end_lineno, node.end_col_offset + 1))
		self.inside[self.n] = self.ctx[-1] if self.ctx else 'function'
		return ast.copy_location(ast.Call(ast.Name('vfp', ast.Load()), [ast.Constant(self.n), node], []), node), self.n

	def generic_visit(self, node):
		return super().generic_visit(node)

	def visit(self, node):
		if isinstance(node, ast.Call) and isinstance(node.func, ast.Attribute) and node.func.attr == '__init__':
			return self.visit_children(node)  # super().__init__(...): tranp types it as the constructed base, Python returns None; the value is never used
		if isinstance(node, ast.expr) and not isinstance(node, self.SKIP):
			if isinstance(getattr(node, 'ctx', None), (ast.Store, ast.Del)):
				return self.visit_children(node)
			node = self.visit_children(node)
			wrapped, _ = self.wrap(node)
			return wrapped
		return self.visit_children(node)

	def visit_children(self, node):
		if isinstance(node, ast.Call) and isinstance(node.func, ast.Attribute) and node.func.attr == '__init__':
			node.args = [self.visit(a) for a in node.args]
			return node
		if isinstance(node, ast.Call):
			# the callee is not a value to describe; its receiver is
			if isinstance(node.func, ast.Attribute):
				node.func.value = self.visit(node.func.value)
			node.args = [self.visit(a) for a in node.args]
			for k in node.keywords:
				k.value = self.visit(k.value)
			return node
		if isinstance(node, ast.FunctionDef):
			self.ctx.append('closure' if 'function' in self.ctx or 'method' in self.ctx else ('method' if self.ctx and self.ctx[-1] == 'class' else 'function'))
			node.body = [self.visit(s) for s in node.body]
			self.ctx.pop()
			return node
		if isinstance(node, ast.ClassDef):
			self.ctx.append('class')
			node.body = [self.visit(s) for s in node.body if not isinstance(s, ast.AnnAssign) or s.value is not None]
			node.body = node.body or [ast.Pass()]
			self.ctx.pop()
			return node
		if isinstance(node, ast.AnnAssign):
			if node.value is not None:
				node.value = self.visit(node.value)
				self.note_target(node.target, node.value)
			return node
		if isinstance(node, ast.Assign):
			node.value = self.visit(node.value)
			if len(node.targets) == 1:
				self.note_target(node.targets[0], node.value)
			node.targets = [self.visit(t) for t in node.targets]
			return node
		if isinstance(node, (ast.ListComp, ast.DictComp)):
			self.ctx.append('comprehension')
			out = super().generic_visit(node)
			self.ctx.pop()
			return out
		if isinstance(node, ast.Subscript) and isinstance(node.ctx, ast.Load) and isinstance(node.value, ast.Name) and node.value.id in ('list', 'dict', 'tuple', 'Callable'):
			return node
		if isinstance(node, ast.ExceptHandler):
			node.body = [self.visit(s) for s in node.body]
			return node
		if isinstance(node, ast.arguments):
			node.defaults = [self.visit(d) for d in node.defaults]
			return node
		return super().generic_visit(node)

	def note_target(self, target, value) -> None:
		if isinstance(target, ast.Name) and isinstance(value, ast.Call) and isinstance(value.func, ast.Name) and value.func.id == 'vfp':
			self.targets[value.args[0].value] = ((target.lineno, target.col_offset + 1), (target.end_lineno, target.end_col_offset + 1), target.id)


def observe(source: str, calls: list[str]) -> tuple[dict, Probe] | None:
	import sys
	tree = ast.parse(source)
	probe = Probe()
	tree = probe.visit(tree)
	ast.fix_missing_locations(tree)
	seen: dict[int, str] = {}

	def vfp(i, v):
		d = describe(v)
		if d is not None:
			seen[i] = merge(seen[i], d) if i in seen else d
		return v

	ns = {'__name__': '__vf_main__', 'vfp': vfp}
	steps = [0]

	class Stop(Exception):
		pass

	def tracer(frame, event, arg):
		steps[0] += 1
		if steps[0] > 300000:
			raise Stop()
		return tracer

	old = sys.gettrace()
	try:
		sys.settrace(tracer)
		exec(compile(tree, '<c03>', 'exec'), ns)
		for c in calls:
			try:
				eval(c, ns)
			except Stop:
				raise
			except Exception:
				pass
	except Stop:
		return None
	except RecursionError:
		return None
	finally:
		sys.settrace(old)
	return seen, probe


# ---- static side -------------------------------------------------------------------------

_app = None


def app(scratch: str):
	global _app
	if _app is None:
		from vf import sut
		_app = sut.MemApp(scratch)
	return _app


def judge(scratch: str, prog: dict) -> tuple[list[tuple[str, str]], dict]:
	import rogw.tranp.syntax.node.definition as defs
	from rogw.tranp.errors import Errors
	from rogw.tranp.semantics.reflection.helper.naming import ClassShorthandNaming
	from rogw.tranp.semantics.reflections import Reflections

	info = {'probes': 0, 'judged': 0, 'inferred_container_decl': False, 'inner_probe': False}
	obs = observe(prog['source'], [c['py'] for c in prog['calls']])
	if obs is None:
		return [('OUT', 'step-limit')], info
	seen, probe = obs
	BASES.clear()
	for n in ast.walk(ast.parse(prog['source'])):
		if isinstance(n, ast.ClassDef) and n.bases and isinstance(n.bases[0], ast.Name):
			BASES[n.name] = n.bases[0].id
	a = app(scratch)
	try:
		module = a.load_main(prog['source'])
	except Errors.Error as e:
		return [('OUT', f'load-rejected:{type(e).__name__}')], info
	reflections = a.resolve(Reflections)
	by_span: dict = {}
	expr_types = (defs.Reference, defs.FuncCall, defs.Literal, defs.Operator, defs.Comprehension, defs.Declable)
	for node in [*module.entrypoint.procedural(), module.entrypoint]:
		if not isinstance(node, expr_types):
			continue
		m = node.source_map
		key = (tuple(m['begin']), tuple(m['end']))
		by_span.setdefault(key, node)  # post-order: the innermost node with this span comes first; keep the first expression node
	fails: list[tuple[str, str]] = []
	info['probes'] = len(seen)
	lines = prog['source'].split('\n')

	def text_of(span) -> str:
		(l1, c1), (l2, c2) = span
		return lines[l1 - 1][c1 - 1:c2 - 1] if l1 == l2 else lines[l1 - 1][c1 - 1:] + '...'

	def static_of(node) -> str:
		return ClassShorthandNaming.domain_name_for_debug(reflections.type_of(node))

	for pid, runtime in seen.items():
		span = probe.spans[pid]
		node = by_span.get(span)
		if node is not None and not isinstance(node, defs.Declable):
			try:
				static = static_of(node)
			except Errors.Error as e:
				fails.append((f'type_of:raises:{type(e).__name__}:{type(node).__name__}', f'{text_of(span)!r} at {span}: {type(e).__name__}: {str(e)[:200]}'))
				continue
			info['judged'] += 1
			if probe.inside[pid] in ('comprehension', 'closure', 'method'):
				info['inner_probe'] = True
			if 'Unknown' in static and runtime != '*' and '*' not in runtime:
				fails.append((f'unknown:{type(node).__name__}', f'{text_of(span)!r} at {span}: inferred {static}, run-time {runtime}'))
			elif not unify(static, runtime):
				fails.append((f'differs:{type(node).__name__}:{split(static)[0]}-vs-{split(runtime)[0]}', f'{text_of(span)!r} at {span}: inferred {static}, run-time {runtime}'))
		if pid in probe.targets:
			tb, te, name = probe.targets[pid]
			tnode = by_span.get((tb, te))
			if tnode is not None and isinstance(tnode, defs.Declable):
				try:
					static = static_of(tnode)
				except Errors.Error as e:
					fails.append((f'type_of:raises:{type(e).__name__}:decl', f'declaration of {name} at {tb}: {type(e).__name__}'))
					continue
				info['judged'] += 1
				if split(runtime)[0] in ('list', 'dict', 'tuple') or runtime[:1] == 'C':
					info['inferred_container_decl'] = True
				if 'Unknown' in static and '*' not in runtime:
					fails.append(('unknown:declaration', f'{name} at {tb}: inferred {static}, assigned values are {runtime}'))
				elif not unify(static, runtime):
					fails.append((f'differs:declaration:{split(static)[0]}-vs-{split(runtime)[0]}', f'{name} at {tb}: inferred {static}, assigned values are {runtime}'))
	return fails, info


@st.composite
def cases(draw, exclude: frozenset = frozenset()):
	from vf import pygen
	rnd = draw(st.randoms(use_true_random=False))
	return pygen.gen_program(rnd, set(exclude), size=rnd.randint(1, 3))


def shard(ctx: core.Ctx) -> None:
	exclude = core.frontend_exclusions() | frozenset(ctx.excluded)

	def body(prog: dict) -> None:
		fails, info = judge(ctx.scratch, prog)
		if fails and fails[0][0] == 'OUT':
			ctx.discard(fails[0][1])
			ctx.evaluations += 1
			return
		ctx.extra['expressions_judged'] = ctx.extra.get('expressions_judged', 0) + info['judged']
		ctx.case(prog['source'], info['inferred_container_decl'] and info['inner_probe'], sample={'source': prog['source'], 'judged_expressions': info['judged']} if len(prog['source']) < 1200 else None,
			labels=['program'] + (['inner-probe'] if info['inner_probe'] else []))
		for sig, detail in fails[:3]:
			ctx.fail(sig, detail + '\n' + prog['source'], {'source': prog['source'], 'calls': prog['calls']})

	core.drive(ctx, cases(exclude), body, total=ctx.budget['programs'], chunk=20)


def replay(case: dict) -> list[tuple[str, str]]:
	from vf import env
	global _app
	with env.Scratch('c03r') as s:
		_app = None
		try:
			fails, _ = judge(s.path, case)
			return [f for f in fails if f[0] != 'OUT']
		finally:
			_app = None
