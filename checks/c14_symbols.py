"""C14 — exporting and re-importing the symbol table loses nothing (round trip)."""
import json
import os

from hypothesis import strategies as st

from vf import core

PROPERTY = 'C14'
LEVEL = 'exploration'
RULE = ('generated two-module programs (module B imports classes, enums and functions of module A, derives from A\'s classes and uses them in signatures, locals, containers, closures, lambdas, comprehensions) '
	'and the real library modules every App loads; for each module M of the loaded set: data = to_json(M) through the registered serializer, JSON encode/decode, import into a fresh SymbolDB that holds the symbols '
	'of all *other* modules; import must not raise, every key of M must come back with the same short type description (nested attrs), types.fullyname, node, decl and via, the module must count as completed, '
	'a second import must change nothing and to_json of the restored table must equal data; non-trivial = a symbol with attrs nested >= 2 and a symbol whose origin lives in another module; distinct by source hash')
ASSUMPTIONS = ['constructs with a confirmed C01 defect are excluded by construction (the module must load)']
BUDGET = {
	'quick': {'seconds': 50, 'programs': 40, 'shards': 16},
	'thorough': {'seconds': 560, 'programs': 3000, 'shards': 16},
}

_state: dict = {}


def state(scratch: str):
	if 'app' not in _state:
		from vf import sut
		proj = os.path.join(scratch, 'proj')
		os.makedirs(proj, exist_ok=True)
		_state['app'] = sut.MemApp(scratch, extra_source_dirs=[proj])
		_state['proj'] = proj
		_state['n'] = 0
	return _state


def describe(raw, depth: int = 0) -> list:
	"""Everything the property names, recursively over attrs."""
	from rogw.tranp.semantics.reflection.helper.naming import ClassShorthandNaming
	if depth > 0:
		# nested type arguments are part of the *type description*; node/decl/via are claimed for the keyed symbol itself
		return [ClassShorthandNaming.domain_name_for_debug(raw), raw.types.fullyname, None, None, None, [describe(a, depth + 1) for a in raw.attrs] if depth < 6 else []]
	return [ClassShorthandNaming.domain_name_for_debug(raw), raw.types.fullyname, (raw.node.module_path, raw.node.full_path), (raw.decl.module_path, raw.decl.full_path),
		raw.via.types.fullyname, [describe(a, depth + 1) for a in raw.attrs] if depth < 6 else []]


def attr_depth(raw, d: int = 0) -> int:
	return max([attr_depth(a, d + 1) for a in raw.attrs] or [d])


def judge_module(db, serializer, module_path: str) -> tuple[list[tuple[str, str]], dict]:
	from rogw.tranp.errors import Errors
	from rogw.tranp.semantics.reflection.db import SymbolDB
	fails: list[tuple[str, str]] = []
	info = {'keys': 0, 'deep': False, 'foreign': False}
	try:
		data = db.to_json(serializer, module_path)
	except Exception as e:
		return [(f'export:raises:{type(e).__name__}', f'{module_path}: {str(e)[:300]}')], info
	wire = json.loads(json.dumps(data))
	want = {}
	for key, raw in db.items(module_path):
		want[key] = describe(raw)
		info['keys'] += 1
		if attr_depth(raw) >= 2:
			info['deep'] = True
		if raw.types.module_path != module_path and not raw.types.module_path.startswith('rogw.'):
			info['foreign'] = True
	if sorted(want) != sorted(data):
		fails.append(('export:key-set', f'{module_path}: exported {len(data)} keys, table has {len(want)}: missing {sorted(set(want) - set(data))[:3]} extra {sorted(set(data) - set(want))[:3]}'))
		return fails, info
	db2 = SymbolDB()
	for key, raw in db.items():
		if key not in want:
			db2[key] = raw
	try:
		db2.import_json(serializer, wire)
	except Errors.Error as e:
		return [(f'import:raises:{type(e).__name__}', f'{module_path}: {str(e)[:300]}')], info
	except Exception as e:
		return [(f'import:crash:{type(e).__name__}', f'{module_path}: {str(e)[:300]}')], info
	if not db2.completed(module_path):
		fails.append(('import:not-completed', module_path))
	got_keys = [k for k, _ in db2.items(module_path)]
	if sorted(got_keys) != sorted(want):
		fails.append(('import:key-set', f'{module_path}: {len(got_keys)} vs {len(want)}'))
		return fails, info
	for key in want:
		try:
			got = describe(db2[key])
		except Exception as e:
			fails.append((f'restored:describe-raises:{type(e).__name__}', f'{key}: {str(e)[:200]}'))
			break
		if got != want[key]:
			field = next(i for i, (x, y) in enumerate(zip(got, want[key])) if x != y)
			names = ['type description', 'types.fullyname', 'node', 'decl', 'via', 'attrs']
			fails.append((f'restored:differs:{names[field]}', f'{key}: {got[field]!r} vs {want[key][field]!r}'))
			break
	if not fails:
		before = {k: describe(db2[k]) for k in want}
		try:
			db2.import_json(serializer, wire)
		except Exception as e:
			fails.append((f'reimport:raises:{type(e).__name__}', f'{module_path}: {str(e)[:200]}'))
		else:
			if {k: describe(db2[k]) for k in want} != before or sorted(k for k, _ in db2.items(module_path)) != sorted(want):
				fails.append(('reimport:changes', module_path))
			elif db2.to_json(serializer, module_path) != data:
				fails.append(('reexport:differs', f'{module_path}: to_json(import(data)) != data'))
	return fails, info


@st.composite
def cases(draw, exclude: frozenset = frozenset()):
	from vf import pygen
	rnd = draw(st.randoms(use_true_random=False))
	return pygen.gen_two_modules(rnd, set(exclude))


def judge(scratch: str, case: dict) -> tuple[list[tuple[str, str]], dict]:
	from rogw.tranp.errors import Errors
	from rogw.tranp.semantics.reflection.db import SymbolDB
	from rogw.tranp.semantics.reflection.serialization import IReflectionSerializer
	s = state(scratch)
	s['n'] += 1
	na, nb = f'ma{s["n"]}', f'mb{s["n"]}'
	src_b = case['b'].replace(f'from {case["name_a"]} import', f'from {na} import')
	for name, src in ((na, case['a']), (nb, src_b)):
		with open(os.path.join(s['proj'], name + '.py'), 'w') as f:
			f.write(src)
	a = s['app']
	info = {'keys': 0, 'deep': False, 'foreign': False}
	try:
		try:
			a.modules.load(nb)
		except Errors.Error as e:
			return [('OUT', f'load-rejected:{type(e).__name__}')], info
		db = a.resolve(SymbolDB)
		serializer = a.resolve(IReflectionSerializer)
		fails: list = []
		for m in (na, nb):
			f, i = judge_module(db, serializer, m)
			fails += f
			info['keys'] += i['keys']
			info['deep'] = info['deep'] or i['deep']
			info['foreign'] = info['foreign'] or i['foreign']
		return fails, info
	finally:
		for name in (nb, na):
			try:
				a.modules.unload(name)
			except Exception:
				pass
			os.unlink(os.path.join(s['proj'], name + '.py'))


def shard(ctx: core.Ctx) -> None:
	from rogw.tranp.semantics.reflection.db import SymbolDB
	from rogw.tranp.semantics.reflection.serialization import IReflectionSerializer
	exclude = core.frontend_exclusions() | frozenset(ctx.excluded)
	s = state(ctx.scratch)
	if ctx.shard == 0:
		# the real library modules of the loaded set
		a = s['app']
		a.load_main('x = 1\n')
		db, ser = a.resolve(SymbolDB), a.resolve(IReflectionSerializer)
		for m in a.modules.loaded():
			if m.path == '__main__':
				continue
			fails, info = judge_module(db, ser, m.path)
			ctx.case(m.path, True, sample={'real_module': m.path, 'keys': info['keys']}, labels=['g3-module'])
			for sig, detail in fails:
				ctx.fail(sig, detail, {'kind': 'loaded-module', 'path': m.path})

	def body(case: dict) -> None:
		fails, info = judge(ctx.scratch, case)
		if fails and fails[0][0] == 'OUT':
			ctx.discard(fails[0][1])
			ctx.evaluations += 1
			return
		ctx.extra['symbols_compared'] = ctx.extra.get('symbols_compared', 0) + info['keys']
		ctx.case([case['a'], case['b']], info['deep'] and info['foreign'], sample={'module_a': case['a'], 'module_b': case['b']} if len(case['a']) + len(case['b']) < 1800 else None,
			labels=['two-modules'] + [k for k in ('deep', 'foreign') if info[k]])
		for sig, detail in fails:
			ctx.fail(sig, detail, {'kind': 'two-modules', 'a': case['a'], 'b': case['b'], 'name_a': case['name_a'], 'name_b': case['name_b']})

	core.drive(ctx, cases(exclude), body, total=ctx.budget['programs'], chunk=10)


def replay(case: dict) -> list[tuple[str, str]]:
	from rogw.tranp.semantics.reflection.db import SymbolDB
	from rogw.tranp.semantics.reflection.serialization import IReflectionSerializer
	from vf import env
	with env.Scratch('c14r') as sc:
		_state.clear()
		try:
			if case['kind'] == 'loaded-module':
				s = state(sc.path)
				a = s['app']
				a.load_main('x = 1\n')
				return judge_module(a.resolve(SymbolDB), a.resolve(IReflectionSerializer), case['path'])[0]
			fails, _ = judge(sc.path, case)
			return [f for f in fails if f[0] != 'OUT']
		finally:
			_state.clear()
