"""C13 — tokenizer agrees with Python's tokenizer and ignores insignificant layout.

A structure (lines of tokens with block depth, bracket groups that may span lines) is generated
once and rendered under two independent layouts (indent unit, blanks around operators, comments,
blank lines, trailing blanks, EOF newline).  Oracles: (i) differential against CPython's
tokenize, (ii) raw lexer round trip + source maps, (iii) layout metamorphic, (iv) indent balance.
"""
import io
import token as pytoken
import tokenize

from hypothesis import strategies as st

from vf import core

PROPERTY = 'C13'
LEVEL = 'exploration'
RULE = ('token structures (names, decimal ints/floats, strings with prefixes ""/r/f and quotes \' " """ incl. escapes, every single and combined operator that is '
	'also a Python operator, bracket groups nested <= 4 spanning lines, blocks nested <= 5) rendered under two random layouts; compared with CPython tokenize, '
	'raw lexer round trip/source maps, layout invariance and indent balance; non-trivial = >= 2 block levels, a dedent of >= 2 levels at once and a bracket group spanning lines '
	'or a comment line between two statements; distinct by rendered text')
ASSUMPTIONS = [
	'lexical subset read from TokenDefinition: no backslash continuation, no triple-single quotes, no // **= <<= >>= @= //=, no hex/exponent/underscore numbers, no .5, no DSL-only symbols; one consistent indent unit per source',
	'f-strings carry no replacement fields; CPython 3.12 FSTRING_START/MIDDLE/END tokens are merged back into one string token by source span',
	"a '-' is never the last character of a line; the blank (or its absence) after '-' belongs to the structure, not to the layout",
	'CPython 3.12 tokenize is the reference',
]
# coverage-guided phase of the thorough tier (atheris/libFuzzer over the same strategy and oracle, vf/core.py _drive_atheris)
FUZZ = {'seconds': 150, 'procs': 8, 'max_len': 2048, 'imports': ['rogw.tranp.implements.syntax.tranp.tokenizer']}
BUDGET = {
	'quick': {'seconds': 25, 'examples': 2500, 'shards': 16},
	'thorough': {'seconds': 500, 'examples': 150000, 'shards': 16},
}

NAMES = ['a', 'b', 'x1', '_y', 'foo', 'Bar', 'if', 'else', 'def', 'return', 'None', 'r', 'f', 'in', 'not', 'lambda', 'e5', 'x']
NUMBERS = ['0', '1', '42', '3.14', '10.', '0.5', '1234567890']
SINGLE_OPS = list('@.,:;=-+*/%&|^~<>')
COMBINED_OPS = ['-=', '+=', '*=', '/=', '%=', '&=', '|=', '^=', '==', '!=', '<=', '>=', '<<', '>>', '->', '**', ':=', '...']
BRACKETS = ['()', '[]', '{}']
DSL_ONLY = ['&&', '||', '~=']


# ---------------------------------------------------------------------------------------
# CPython reference

def py_tokens(source: str) -> list[tuple[str, str]] | None:
	"""Significant CPython token stream as (kind, string); None if CPython rejects the text."""
	out: list[tuple[str, str]] = []
	lines = source.splitlines(keepends=True)

	def offset(pos: tuple[int, int]) -> int:
		return sum(len(l) for l in lines[:pos[0] - 1]) + pos[1]

	fstart = None
	try:
		for tok in tokenize.generate_tokens(io.StringIO(source).readline):
			if fstart is not None:
				if tok.type == pytoken.FSTRING_END:
					out.append(('tok', source[offset(fstart):offset(tok.end)]))
					fstart = None
				continue
			if tok.type == pytoken.FSTRING_START:
				fstart = tok.start
			elif tok.type in (pytoken.ENDMARKER, pytoken.NL, pytoken.COMMENT, pytoken.ENCODING):
				continue
			elif tok.type == pytoken.NEWLINE:
				out.append(('NEWLINE', ''))
			elif tok.type == pytoken.INDENT:
				out.append(('INDENT', ''))
			elif tok.type == pytoken.DEDENT:
				out.append(('DEDENT', ''))
			else:
				out.append(('tok', tok.string))
	except (tokenize.TokenError, SyntaxError, IndentationError):
		return None
	return out


_pair_cache: dict[tuple[str, str], bool] = {}


def _kind(tok: str) -> str:
	if tok[0] in '"\'' or (tok[0] in 'rf' and len(tok) > 1 and tok[1] in '"\''):
		return 'str'
	if tok[0].isdigit():
		return 'num'
	if tok[0].isalpha() or tok[0] == '_':
		return 'name'
	return 'op'


def need_space(a: str, b: str) -> bool:
	ka, kb = _kind(a), _kind(b)
	if ka != 'op' and kb != 'op':
		return True
	if (ka == 'num' and b[0] == '.') or (a[-1] == '.' and kb == 'num'):
		return True
	if a[-1] == '.' and b[0] == '.':
		return True  # '.' '.' '.' glued is the single token '...': gluing is decided pairwise, so dots are never glued
	if ka == 'op' and kb == 'op' and any(d in (a + b) and d not in a and d not in b for d in DSL_ONLY):
		return True  # would form a DSL-only combined symbol of TokenDefinition (not in the Python subset)
	key = (a, b)
	if key not in _pair_cache:
		match = {'(': ')', '[': ']', '{': '}', ')': '(', ']': '[', '}': '{'}
		pre = [match[x] for x in (a, b) if x in ')]}'][::-1]
		post = [match[x] for x in (a, b) if x in '([{'][::-1]
		toks = py_tokens(' '.join(pre) + ' ' + a + b + ' ' + ' '.join(post))
		_pair_cache[key] = toks is None or [t for k, t in toks if k == 'tok'] != pre + [a, b] + post
	return _pair_cache[key]


# ---------------------------------------------------------------------------------------
# explicit membership test of the lexical subset for raw text (used by the shrinker and as a
# soundness assertion on every generated case)

import re

_NUM = re.compile(r'(0|[1-9][0-9]*)(\.[0-9]*)?')
_STR = re.compile('(r|f)?("""(?:[^\\\\]|\\\\.)*?"""|"(?:[^"\\\\\\n]|\\\\.)*"|\'(?:[^\'\\\\\\n]|\\\\.)*\')', re.S)
_ALLOWED_OPS = set(SINGLE_OPS) | set(COMBINED_OPS) | set('()[]{}')


def in_domain(source: str) -> bool:
	if not source.strip() or any(ord(c) > 126 or (ord(c) < 32 and c not in '\n\t') for c in source):
		return False
	lines = source.splitlines(keepends=True)

	def offset(pos: tuple[int, int]) -> int:
		return sum(len(l) for l in lines[:pos[0] - 1]) + pos[1]

	toks = []
	fstart = None
	try:
		for tok in tokenize.generate_tokens(io.StringIO(source).readline):
			if fstart is not None:
				if tok.type == pytoken.FSTRING_END:
					toks.append((pytoken.STRING, source[offset(fstart):offset(tok.end)], fstart, tok.end))
					fstart = None
				elif tok.type != pytoken.FSTRING_MIDDLE:
					return False
				continue
			if tok.type == pytoken.FSTRING_START:
				fstart = tok.start
			elif tok.type == pytoken.ERRORTOKEN:
				return False
			else:
				toks.append((tok.type, tok.string, tok.start, tok.end))
	except (tokenize.TokenError, SyntaxError, IndentationError):
		return False
	unit = None
	level = 0
	depth = 0
	prev = None
	line_start = True
	first_line = True
	for typ, string, start, end in toks:
		if typ in (pytoken.NL, pytoken.COMMENT, pytoken.ENDMARKER, pytoken.DEDENT):
			if typ == pytoken.NL:
				prev = None
			continue
		if typ == pytoken.INDENT:
			continue
		if typ == pytoken.NEWLINE:
			if prev is not None and prev[1] == '-':
				return False
			prev, line_start = None, True
			continue
		if line_start and depth == 0:
			ws = lines[start[0] - 1][:start[1]]
			if ws and first_line:
				return False
			first_line = False
			if ws:
				if unit is None:
					unit = ws
					if level != 0 or (set(ws) != {' '} and set(ws) != {'\t'}):
						return False
				if len(ws) % len(unit) != 0 or ws != unit * (len(ws) // len(unit)):
					return False
				k = len(ws) // len(unit)
			else:
				k = 0
			if k > level + 1 or (unit is None and k != 0):
				return False
			level = k
			line_start = False
		if typ == pytoken.NAME:
			pass
		elif typ == pytoken.NUMBER:
			if not _NUM.fullmatch(string):
				return False
		elif typ == pytoken.STRING:
			if not _STR.fullmatch(string) or '{' in string and string[0] == 'f' or '}' in string and string[0] == 'f':
				return False
		elif typ == pytoken.OP:
			if string not in _ALLOWED_OPS:
				return False
			if string in '([{':
				depth += 1
			elif string in ')]}':
				depth -= 1
				if depth < 0:
					return False
		else:
			return False
		if prev is not None and prev[3] == start and prev[1] != '-' and need_space(prev[1], string):
			return False
		if prev is not None and prev[1] == '-' and prev[3] != start and prev[3][0] != start[0]:
			pass
		prev = (typ, string, start, end)
	if prev is not None and prev[1] == '-':
		return False
	if depth != 0:
		return False
	# a '-' directly followed by a line end inside brackets is a blank-after-minus case: fine
	return '\\' not in _strip_strings(source, toks)


def _strip_strings(source: str, toks: list) -> str:
	lines = source.splitlines(keepends=True)
	out = list(source)

	def offset(pos):
		return sum(len(l) for l in lines[:pos[0] - 1]) + pos[1]

	for typ, string, start, end in toks:
		if typ in (pytoken.STRING, pytoken.COMMENT):
			for i in range(offset(start), offset(end)):
				out[i] = ' '
	return ''.join(out)


# ---------------------------------------------------------------------------------------
# structure generation (all choices through a Hypothesis-managed Random)

def gen_string(rnd) -> str:
	prefix = rnd.choice(['', '', '', 'r', 'f'])
	quote = rnd.choice(["'", '"', '"', '"""'])
	pieces = ['a', 'b', 'Z', '0', ' ', '#', ',', '(', ']', '-', ':']
	pieces += ["'"] if quote != "'" else []
	pieces += ['"'] if quote == "'" else []
	if prefix != 'f':
		pieces += ['\\n', '\\\\', "\\'", '\\"', '\\t']
	if quote == '"""':
		pieces += ['\n', '\n  ', '"', ' " ']
	body = ''.join(rnd.choice(pieces) for _ in range(rnd.randint(0, 5)))
	if quote == '"""':
		while body.endswith('"'):
			body += 'q'
		body = body.replace('"""', '"q"')
	return prefix + quote + body + quote


def gen_atom(rnd) -> str:
	c = rnd.randint(0, 9)
	if c <= 4:
		return rnd.choice(NAMES)
	if c <= 6:
		return rnd.choice(NUMBERS)
	return gen_string(rnd)


def gen_items(rnd, depth: int, inside: bool, n: int) -> list:
	"""Items: str token | ('-', space_after) | ('NL',) inside brackets | ('G', open, items, close)."""
	items: list = []
	for _ in range(n):
		c = rnd.randint(0, 11)
		if c <= 4:
			items.append(gen_atom(rnd))
		elif c <= 6:
			op = rnd.choice(SINGLE_OPS)
			items.append(('-', rnd.random() < 0.5) if op == '-' else op)
		elif c == 7:
			items.append(rnd.choice(COMBINED_OPS))
		elif c <= 9 and depth < 4:
			br = rnd.choice(BRACKETS)
			items.append(('G', br[0], gen_items(rnd, depth + 1, True, rnd.randint(0, 5)), br[1]))
		elif inside:
			items.append(('NL',))
		else:
			items.append(gen_atom(rnd))
	return items


def fix_minus(items: list, last_in_line: bool = True) -> list:
	"""'-' without a following blank must be followed by a token; a line never ends with '-'."""
	out = []
	for i, it in enumerate(items):
		if isinstance(it, tuple) and it[0] == 'G':
			it = ('G', it[1], fix_minus(it[2], False), it[3])
		elif isinstance(it, tuple) and it[0] == '-':
			nxt = items[i + 1] if i + 1 < len(items) else None
			if nxt is None and last_in_line:
				it = 'x'
			elif nxt is None or (isinstance(nxt, tuple) and nxt[0] == 'NL'):
				it = ('-', True)
			elif not it[1]:
				first = nxt if isinstance(nxt, str) else (nxt[1] if nxt[0] == 'G' else '-')
				if need_space('-', first):
					it = ('-', True)  # e.g. '-' '>>' would fuse into '->' '>'
		out.append(it)
	return out


def gen_structure(rnd) -> list:
	"""List of (depth, items)."""
	lines: list = []

	def block(depth: int, maxdepth: int) -> None:
		for _ in range(rnd.randint(1, 3)):
			items = fix_minus(gen_items(rnd, 0, False, rnd.randint(1, 6)))
			if isinstance(items[0], tuple) and items[0][0] == 'NL':
				items[0] = 'x'
			if depth < maxdepth and rnd.random() < 0.45:
				lines.append((depth, items + [':']))
				block(depth + 1, maxdepth)
			else:
				lines.append((depth, items))

	block(0, rnd.randint(0, 5))
	return lines


# ---------------------------------------------------------------------------------------
# rendering

def flat_tokens(items: list) -> list[str]:
	out: list[str] = []
	for it in items:
		if isinstance(it, str):
			out.append(it)
		elif it[0] == '-':
			out.append('-')
		elif it[0] == 'G':
			out.append(it[1])
			out.extend(flat_tokens(it[2]))
			out.append(it[3])
	return out


def render(lines: list, rnd) -> tuple[str, dict]:
	unit = rnd.choice(['\t', ' ', '  ', '    ', '   ', '        '])
	stats = {'multiline_group': False, 'comment_between': False}
	out: list[str] = []
	for _ in range(rnd.randint(0, 2)):
		out.append(rnd.choice(['\n', '# lead\n', '  \n', '   # c\n']))

	for i, (depth, items) in enumerate(lines):
		indent = unit * depth
		sub, _, _, _ = emit_inner_line(items, indent, rnd, stats)
		line = indent + sub
		line += rnd.choice(['', '', ' ', '  # trailing', '\t', '  #', ' #', '#x', '# '])  # also comments with an empty / one-character body
		out.append(line + '\n')
		if i + 1 < len(lines):
			r = rnd.random()
			if r < 0.15:
				out.append(rnd.choice(['\n', '   \n', '\t\n']))
			elif r < 0.35:
				out.append(unit * rnd.randint(0, 6) + rnd.choice(['# between', '# between', '#', '##', '# #']) + '\n')
				stats['comment_between'] = True
	text = ''.join(out)
	tail = rnd.randint(0, 3)
	if tail == 0:
		text = text[:-1]
	elif tail == 1:
		text += rnd.choice(['\n', '  ', '# end', '\n# end\n', '   # end'])
	return text, stats


def emit_inner_line(items: list, indent: str, rnd, stats: dict) -> tuple:
	"""Top-level line: same spacing rules as inside brackets, but NL markers never occur here."""
	state = {'prev': None, 'after_nl': False, 'force': False}
	text = ''

	def group(it) -> str:
		sub_state = {'prev': None, 'after_nl': False, 'force': False}
		sub = ''
		for x in it[2]:
			if isinstance(x, tuple) and x[0] == 'NL':
				sub += rnd.choice(['', ' ', '  # in', ' #']) + '\n' + rnd.choice(['', ' ', '  ', '\t', indent, indent + '  '])
				if rnd.random() < 0.2:
					sub += rnd.choice(['# own line', '#']) + '\n' + rnd.choice(['', '  '])
				stats['multiline_group'] = True
				sub_state['after_nl'], sub_state['force'] = True, False
				continue
			first = x[1] if isinstance(x, tuple) and x[0] == 'G' else (x if isinstance(x, str) else '-')
			sub += gap(sub_state, first, True)
			if isinstance(x, tuple) and x[0] == 'G':
				sub += group(x)
				sub_state['prev'], sub_state['after_nl'], sub_state['force'] = x[3], False, False
			else:
				sub += first
				sub_state['prev'], sub_state['after_nl'] = first, False
				sub_state['force'] = isinstance(x, tuple) and x[1]
		closing_gap = '' if (sub_state['after_nl'] or (sub_state['prev'] == '-' and not sub_state['force'])) else (' ' if sub_state['force'] else rnd.choice(['', ' ']))
		return it[1] + sub + closing_gap + it[3]

	def gap(state_: dict, nxt: str, inner: bool) -> str:
		if state_['after_nl']:
			return ''
		if state_['prev'] is None:
			return rnd.choice(['', ' ']) if inner else ''
		if state_['force']:
			return ' '
		if state_['prev'] == '-':
			return ''
		if need_space(state_['prev'], nxt):
			return rnd.choice([' ', ' ', '  ', '\t'])
		return rnd.choice(['', ' '])

	for it in items:
		first = it[1] if isinstance(it, tuple) and it[0] == 'G' else (it if isinstance(it, str) else '-')
		text += gap(state, first, False)
		if isinstance(it, tuple) and it[0] == 'G':
			text += group(it)
			state['prev'], state['after_nl'], state['force'] = it[3], False, False
		else:
			text += first
			state['prev'], state['after_nl'] = first, False
			state['force'] = isinstance(it, tuple) and it[1]
	return text, state['prev'], state['after_nl'], state['force']


@st.composite
def cases(draw):
	rnd = draw(st.randoms(use_true_random=False))
	lines = gen_structure(rnd)
	s1, st1 = render(lines, rnd)
	s2, st2 = render(lines, rnd)
	depths = [d for d, _ in lines]
	big_dedent = any(depths[i] - depths[i + 1] >= 2 for i in range(len(depths) - 1)) or depths[-1] >= 2
	return {'a': s1, 'b': s2, 'max_depth': max(depths), 'big_dedent': big_dedent,
		'multiline_group': st1['multiline_group'], 'comment_between': st1['comment_between'] or st2['comment_between']}


# ---------------------------------------------------------------------------------------
# oracle

UNARY = '\\OP_UNARY_MINUS'


def tranp_tokens(source: str, map_minus: bool) -> list[tuple[str, str]]:
	from rogw.tranp.implements.syntax.tranp.token import TokenTypes
	from rogw.tranp.implements.syntax.tranp.tokenizer import Tokenizer
	out = []
	for t in Tokenizer().parse(source):
		if t.type == TokenTypes.NewLine:
			out.append(('NEWLINE', ''))
		elif t.type == TokenTypes.Indent:
			out.append(('INDENT', ''))
		elif t.type == TokenTypes.Dedent:
			out.append(('DEDENT', ''))
		else:
			out.append(('tok', '-' if (map_minus and t.string == UNARY) else t.string))
	return out


def offsets(source: str) -> list[int]:
	starts = [0]
	for i, ch in enumerate(source):
		if ch == '\n':
			starts.append(i + 1)
	return starts


def judge_source(source: str) -> list[tuple[str, str]]:
	from rogw.tranp.implements.syntax.tranp.token import TokenDefinition
	from rogw.tranp.implements.syntax.tranp.tokenizer import Lexer
	fails: list[tuple[str, str]] = []
	ref = py_tokens(source)
	if ref is None:
		return [('OUT-OF-DOMAIN', 'cpython rejects')]

	def guarded(fn, what: str):
		try:
			return fn()
		except Exception as e:
			import traceback
			tb = [f for f in traceback.extract_tb(e.__traceback__) if '/rogw/' in f.filename]
			if not tb:
				raise
			fails.append((f'{what}:raises:{type(e).__name__}@{tb[-1].name}', f'{type(e).__name__}: {e} on {source!r}'))
			return None

	# (i) differential
	got = guarded(lambda: tranp_tokens(source, True), 'tokens')
	if got is not None and got != ref:
		k = next((i for i, (x, y) in enumerate(zip(got, ref)) if x != y), min(len(got), len(ref)))
		kind = 'layout' if (k < len(got) and got[k][0] != 'tok') or (k < len(ref) and ref[k][0] != 'tok') else 'token'
		what = ref[k][1] if k < len(ref) and kind == 'token' else ''
		cls = _kind(what) if what else 'end'
		fails.append((f'differential:{kind}:{cls}', f'source={source!r}\n  first difference at #{k}: tranp={got[k:k + 4]} cpython={ref[k:k + 4]}'))
	# (iv) balance
	if got is not None:
		depth = 0
		for k_, _ in got:
			depth += 1 if k_ == 'INDENT' else (-1 if k_ == 'DEDENT' else 0)
			if depth < 0:
				fails.append(('balance:negative-depth', f'source={source!r}'))
				break
		if depth != 0:
			fails.append(('balance:indent-dedent-count', f'source={source!r} final depth {depth}'))
	# (ii) raw lexer round trip and source maps
	raw = guarded(lambda: Lexer(TokenDefinition()).parse_impl(source), 'lexer')
	if raw is not None:
		text = ''.join('-' if t.string == UNARY else t.string for t in raw)
		if text != source:
			fails.append(('roundtrip:concat', f'source={source!r} concat={text!r}'))
		else:
			starts = offsets(source)
			for t in raw:
				m = t.source_map
				try:
					piece = source[starts[m.begin_line] + m.begin_column:starts[m.end_line] + m.end_column]
				except IndexError:
					piece = None
				if piece != ('-' if t.string == UNARY else t.string):
					fails.append(('roundtrip:source-map', f'source={source!r} token={t!r} addressed={piece!r}'))
					break
	return fails


def judge(case: dict) -> list[tuple[str, str]]:
	fa = judge_source(case['a'])
	fb = judge_source(case['b'])
	if any(s == 'OUT-OF-DOMAIN' for s, _ in fa + fb):
		return [('OUT-OF-DOMAIN', 'cpython rejects a rendering')]
	fails = fa + [f for f in fb if f[0] not in {s for s, _ in fa}]
	if not fails:
		ta, tb = tranp_tokens(case['a'], False), tranp_tokens(case['b'], False)
		if ta != tb:
			k = next((i for i, (x, y) in enumerate(zip(ta, tb)) if x != y), min(len(ta), len(tb)))
			fails.append(('metamorphic:layout', f'a={case["a"]!r}\n  b={case["b"]!r}\n  first difference at #{k}: {ta[k:k + 3]} vs {tb[k:k + 3]}'))
	return fails


def shard(ctx: core.Ctx) -> None:
	def body(case: dict) -> None:
		if not in_domain(case['a']) or not in_domain(case['b']):
			raise core.HarnessError(f'generator left the lexical subset: {case}')
		fails = judge(case)
		if any(s == 'OUT-OF-DOMAIN' for s, _ in fails):
			ctx.discard('cpython-rejects')
			ctx.evaluations += 1
			return
		nontrivial = case['max_depth'] >= 2 and case['big_dedent'] and (case['multiline_group'] or case['comment_between'])
		ctx.case(case['a'], nontrivial, sample={'a': case['a'], 'b': case['b']},
			labels=[f'depth{case["max_depth"]}'] + [k for k in ('big_dedent', 'multiline_group', 'comment_between') if case[k]])
		for sig, detail in fails:
			ctx.fail(sig, detail, {'a': case['a'], 'b': case['b']})

	core.drive(ctx, cases(), body, total=ctx.budget['examples'], chunk=250)


def replay(case: dict) -> list[tuple[str, str]]:
	return [f for f in judge(case) if f[0] != 'OUT-OF-DOMAIN']


def shrink(failure: dict) -> dict | None:
	"""Line-level then character-level ddmin on the failing rendering, keeping the bucket."""
	sig = failure['sig']
	case = failure['case']
	if sig.startswith('metamorphic'):
		return None
	src = case['a'] if any(s == sig for s, _ in judge_source(case['a'])) else case['b']

	def bad(s: str) -> bool:
		if not s.strip() or not in_domain(s):
			return False
		try:
			return any(x == sig for x, _ in judge_source(s))
		except Exception:
			return False

	lines = src.splitlines(keepends=True)
	changed = True
	while changed and len(lines) > 1:
		changed = False
		for i in range(len(lines)):
			cand = lines[:i] + lines[i + 1:]
			if bad(''.join(cand)):
				lines, changed = cand, True
				break
	s = ''.join(lines)
	changed = True
	budget = 600
	while changed and budget > 0:
		changed = False
		for i in range(len(s)):
			budget -= 1
			cand = s[:i] + s[i + 1:]
			if bad(cand):
				s, changed = cand, True
				break
	detail = [d for x, d in judge_source(s) if x == sig][0]
	return dict(failure, case={'a': s, 'b': s}, detail=detail)
