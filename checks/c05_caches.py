"""C05 — on-disk caches never change the result (history testing + truncation fault injection against a cold run)."""
import builtins
import os
import shutil
import tempfile

from hypothesis import strategies as st

from vf import core

PROPERTY = 'C05'
LEVEL = 'fault_enumeration'
RULE = ('scratch CLI projects with a pair / chain / diamond / 4-chain of modules whose variants differ visibly to importers (exported return type, field type, enum values, inferred module variable) or invisibly (a body constant); '
	'histories of edit(module, variant) [content and mtime change], forced run with caching enabled or disabled (fresh App per run, as a command-line invocation), clear-cache, truncate(any cache file, offset in {0, 1, len/2, len-1}) and touch(grammar); '
	'oracle after every run: all outputs equal those of the same forced run on a copy of the project with an empty cache directory; with caching disabled the cache directory is byte-identical before/after and no file below it is opened; '
	'after a truncation the run fails or yields exactly the cold outputs; non-trivial = run -> visible edit of a module imported by another target -> warm run, or a truncation of a file the next run reads; distinct by (graph, history)')
ASSUMPTIONS = [
	'an interrupted write is simulated by truncating a finished cache file (the only partial state open(...,"wb"); write() can leave); torn writes and concurrent runs sharing a cache directory are not modelled',
	'runs are forced (-f) so that the header-based target selection (property C06) does not mask cache effects',
]
BUDGET = {
	'quick': {'seconds': 60, 'histories': 8, 'shards': 16},
	'thorough': {'seconds': 560, 'histories': 300, 'shards': 16},
}


@st.composite
def cases(draw, exclude: frozenset = frozenset()):
	from vf import project as P
	rnd = draw(st.randoms(use_true_random=False))
	gname = rnd.choice(['pair', 'chain', 'chain', 'diamond', 'chain4', 'twins', 'twins'])
	graph = P.GRAPHS[gname]
	mods = sorted(graph)
	ops = []
	for _ in range(rnd.randint(3, 9)):
		k = rnd.choice(['edit', 'edit', 'edit_old_mtime', 'edit_same_second', 'run', 'run', 'run', 'run_nocache', 'clear', 'truncate', 'touch_grammar'])
		m = rnd.choice(mods)
		visible = rnd.randint(0, P.VISIBLE[m] - 1)
		if 'transitive-visible-edit' in exclude and P.dependents(graph, m) - {x for x in graph if m in graph[x]}:
			visible = 0  # known finding: keep edits of modules with indirect dependents invisible
		ops.append([k, m, visible, rnd.randint(1, 3), rnd.randint(0, 10 ** 6), rnd.choice(['0', '1', 'half', 'last'])])
	if gname == 'twins':
		# the two imported modules exchange their contents between two runs (both files are edited)
		v1, v2 = rnd.sample([0, 1, 2], 2)
		ops = [['edit', 'me', v1, 1, 0, '0'], ['edit', 'mf', v2, 1, 0, '0'], ['run', 'mg', 0, 1, 0, '0'], ['edit', 'me', v2, 1, 0, '0'], ['edit', 'mf', v1, 1, 0, '0'], ['run', 'mg', 0, 1, 0, '0']] + ops[:4]
	elif rnd.random() < 0.35:
		# an mtime that comes back: content X at T1, run, content Y at T2, run, content Z at T1 again, run
		m = rnd.choice(mods)
		vis = [0 if ('transitive-visible-edit' in exclude and P.dependents(graph, m) - {x for x in graph if m in graph[x]}) else rnd.randint(0, P.VISIBLE[m] - 1) for _ in range(2)]
		ops = [['run', m, 0, 1, 0, '0'], ['edit', m, vis[0], 2, 0, '0'], ['run', m, 0, 1, 0, '0'], ['edit_old_mtime', m, vis[1], 3, rnd.randint(0, 5), '0'], ['run', m, 0, 1, 0, '0']] + ops[:4]
	ops.append(['run', mods[0], 0, 1, 0, '0'])
	# in half of the histories the grammar file is newer than every source file (the tool was installed after the sources were written)
	return {'graph': gname, 'ops': ops, 'grammar_newer': rnd.random() < 0.5, 'root_deps': rnd.random() < 0.35}


class OpenSpy:
	"""Records every path opened below `root` while active."""

	def __init__(self, root: str) -> None:
		self.root = os.path.realpath(root)
		self.hits: list[str] = []

	def __enter__(self):
		self.old = builtins.open
		spy = self

		def wrapped(file, *a, **kw):
			try:
				p = os.path.realpath(file) if isinstance(file, (str, bytes, os.PathLike)) else ''
				if isinstance(p, bytes):
					p = p.decode()
				if p.startswith(spy.root + os.sep):
					spy.hits.append(os.path.relpath(p, spy.root))
			except Exception:
				pass
			return spy.old(file, *a, **kw)

		builtins.open = wrapped
		return self

	def __exit__(self, *exc):
		builtins.open = self.old


def judge(scratch: str, case: dict) -> tuple[list[tuple[str, str]], dict]:
	from rogw.tranp.errors import Errors
	from vf import env
	from vf import project as P
	graph = P.GRAPHS[case['graph']]
	# modules that others import may lie directly in the project root (imported by an undotted module path)
	pkg = {m: ('' if case.get('root_deps') and P.dependents(graph, m) else 'src') for m in graph}
	work = tempfile.mkdtemp(prefix='c05-', dir=scratch)
	info = {'warm_after_visible_edit': False, 'truncation_read': False, 'runs': 0, 'mtime_recurrence': False, 'same_second_edit': False}
	fails: list[tuple[str, str]] = []
	trace: list[str] = []
	try:
		proj = os.path.join(work, 'proj')
		os.makedirs(os.path.join(proj, 'src'))
		os.makedirs(os.path.join(proj, 'data'))
		shutil.copy(os.path.join(env.REPO, 'data/grammar.lark'), os.path.join(proj, 'data/grammar.lark'))
		for cache in (True, False):
			P.write_config(proj, ['out/'], ['src/*.py'] + (['*.py'] if case.get('root_deps') else []), cache_enabled=cache)
			# the project-local grammar copy may be touched without touching /repo
			path = os.path.join(proj, 'config.yml' if cache else 'config_nocache.yml')
			text = open(path).read().replace(os.path.join(env.REPO, 'data/grammar.lark'), 'data/grammar.lark')
			open(path, 'w').write(text)
		if case.get('grammar_newer'):
			g = os.path.join(proj, 'data/grammar.lark')
			future = os.stat(g).st_mtime_ns + 86_400_000_000_000
			os.utime(g, ns=(future, future))
			trace.append('grammar newer than all sources')
		state = {m: (0, 1) for m in graph}
		for m in graph:
			P.bump_write(os.path.join(proj, pkg[m], m + '.py'), P.module_source(m, pkg, 0, 1, graph))
		ran_once = False
		mtimes_at_runs: dict = {x: [] for x in graph}
		visible_edit_since_run: set = set()
		truncated_since_run = False
		damaged = False   # a damaged cache file may make every later cache-enabled run fail until the cache is cleared or rebuilt
		n = 0

		def cold_outputs() -> dict | str:
			nonlocal n
			n += 1
			copy = os.path.join(work, f'cold{n}')
			P.copy_project(proj, copy, with_cache=False, with_outputs=False)
			try:
				P.run_cli(copy, force=True)
				return P.tree(os.path.join(copy, 'out'))
			except Errors.Error as e:
				return f'ERROR {type(e).__name__}'
			finally:
				shutil.rmtree(copy, ignore_errors=True)

		for kind, m, visible, invisible, pick, offset in case['ops']:
			if fails:
				break
			if kind in ('edit', 'edit_old_mtime', 'edit_same_second'):
				state[m] = (visible, invisible)
				path_m = os.path.join(proj, pkg[m], m + '.py')
				mtime_before = os.stat(path_m).st_mtime_ns if os.path.exists(path_m) else None
				P.bump_write(path_m, P.module_source(m, pkg, visible, invisible, graph))
				# the new content gets an mtime the file already had at an earlier cached run (a timestamp-preserving restore), but not the one of the latest run
				olds = [t for t in mtimes_at_runs[m][:-1] if t != mtimes_at_runs[m][-1]] if kind == 'edit_old_mtime' and mtimes_at_runs[m] else []
				if olds:
					t = olds[pick % len(olds)]
					os.utime(path_m, ns=(t, t))
					info['mtime_recurrence'] = True
					trace.append(f'edit({m}, visible={visible}, body={invisible}, mtime of run #{mtimes_at_runs[m].index(t) + 1} restored)')
				elif kind == 'edit_same_second' and mtime_before is not None:
					# two saves within one second (an editor and a formatter, a checkout): the new mtime differs from the old one by milliseconds only
					t = mtime_before + (1 + pick % 900) * 1_000_000
					if t // 1_000_000_000 != mtime_before // 1_000_000_000:
						t = mtime_before + 1_000_000
					os.utime(path_m, ns=(t, t))
					info['same_second_edit'] = True
					trace.append(f'edit({m}, visible={visible}, body={invisible}, mtime +{(t - mtime_before) // 1_000_000} ms)')
				else:
					trace.append(f'edit({m}, visible={visible}, body={invisible})')
				if P.dependents(graph, m):
					visible_edit_since_run.add(m)
			elif kind == 'clear':
				shutil.rmtree(os.path.join(proj, '.cache'), ignore_errors=True)
				damaged = False
				trace.append('clear-cache')
			elif kind == 'touch_grammar':
				g = os.path.join(proj, 'data/grammar.lark')
				st_ = os.stat(g)
				os.utime(g, ns=(st_.st_atime_ns, st_.st_mtime_ns + 3_000_000_000))
				trace.append('touch(grammar)')
			elif kind == 'truncate':
				files = sorted(P.tree(os.path.join(proj, '.cache')).keys()) if os.path.isdir(os.path.join(proj, '.cache')) else []
				if not files:
					continue
				f = files[pick % len(files)]
				path = os.path.join(proj, '.cache', f)
				size = os.path.getsize(path)
				off = {'0': 0, '1': min(1, size), 'half': size // 2, 'last': max(0, size - 1)}[offset]
				with open(path, 'r+b') as fh:
					fh.truncate(off)
				truncated_since_run = True
				damaged = True
				trace.append(f'truncate({f}, {off}/{size})')
			elif kind in ('run', 'run_nocache'):
				cache = kind == 'run'
				info['runs'] += 1
				if cache:
					for x in graph:
						mtimes_at_runs[x].append(os.stat(os.path.join(proj, pkg[x], x + '.py')).st_mtime_ns)
				trace.append('run' if cache else 'run(cache disabled)')
				expect = cold_outputs()
				cache_dir = os.path.join(proj, '.cache')
				before = P.tree(cache_dir) if os.path.isdir(cache_dir) else {}
				error = None
				with OpenSpy(cache_dir) as spy:
					try:
						P.run_cli(proj, force=True, cache_enabled=cache)
					except Errors.Error as e:
						error = f'ERROR {type(e).__name__}'
					except Exception as e:
						error = f'CRASH {type(e).__name__}: {e}'
				got = error or P.tree(os.path.join(proj, 'out'))
				if cache and ran_once and visible_edit_since_run:
					info['warm_after_visible_edit'] = True
				if truncated_since_run and cache:
					info['truncation_read'] = True
				if not cache:
					after = P.tree(cache_dir) if os.path.isdir(cache_dir) else {}
					if after != before:
						fails.append(('cache-disabled:cache-dir-changed', f'added {sorted(set(after) - set(before))[:3]} removed {sorted(set(before) - set(after))[:3]}\n  history: {"; ".join(trace)}'))
					elif spy.hits:
						fails.append(('cache-disabled:cache-file-opened', f'{spy.hits[:3]}\n  history: {"; ".join(trace)}'))
				if damaged and cache and isinstance(got, str):
					pass  # a damaged cache may make the run fail (but never succeed with other content)
				elif got != expect:
					if isinstance(got, str) or isinstance(expect, str):
						fails.append((f'run-outcome-differs:{got if isinstance(got, str) else "ok"}-vs-{expect if isinstance(expect, str) else "ok"}'.split(':')[0] + ':' + (got.split(':')[0] if isinstance(got, str) else 'ok') + '-vs-cold-' + (expect.split(':')[0] if isinstance(expect, str) else 'ok'),
							f'warm {got if isinstance(got, str) else "ok"}, cold {expect if isinstance(expect, str) else "ok"}\n  history: {"; ".join(trace)}'))
					else:
						bad = sorted(k for k in set(got) | set(expect) if got.get(k) != expect.get(k))
						mod = os.path.basename(bad[0])[:-2]
						indirect = P.indirect_only_dependencies(graph, mod) if mod in graph else set()
						cause = 'transitive-dependency-edit' if (indirect & visible_edit_history) and not truncated_since_run else ('after-truncation' if truncated_since_run else 'other')
						la, lb = expect.get(bad[0], b'').decode().split('\n'), got.get(bad[0], b'').decode().split('\n')
						k = next((i for i, (x, y) in enumerate(zip(la, lb)) if x != y), min(len(la), len(lb)))
						fails.append((f'warm-differs-from-cold:{cause}', f'{bad[0]} line {k + 1}: cold {la[k] if k < len(la) else "<eof>"!r}, with caches {lb[k] if k < len(lb) else "<eof>"!r}\n  graph {case["graph"]}; history: {"; ".join(trace)}'))
				ran_once = ran_once or cache
				if cache:
					visible_edit_since_run = set()
				truncated_since_run = False
			if kind == 'edit' and visible != 0 or kind == 'edit':
				visible_edit_history.add(m) if kind == 'edit' else None
		return fails, info
	finally:
		shutil.rmtree(work, ignore_errors=True)


visible_edit_history: set = set()


def run_judge(scratch: str, case: dict):
	visible_edit_history.clear()
	return judge(scratch, case)


def shard(ctx: core.Ctx) -> None:
	def body(case: dict) -> None:
		fails, info = run_judge(ctx.scratch, case)
		ctx.extra['runs'] = ctx.extra.get('runs', 0) + info['runs']
		ctx.case([case['graph'], case['ops']], info['warm_after_visible_edit'] or info['truncation_read'], sample={'graph': case['graph'], 'history': [f'{o[0]}({o[1]},{o[2]},{o[3]})' if o[0] == 'edit' else o[0] for o in case['ops']]},
			labels=['history', case['graph']] + (['grammar-newer-than-sources'] if case.get('grammar_newer') else []) + (['dependencies-in-project-root'] if case.get('root_deps') else []) + [k for k in ('warm_after_visible_edit', 'truncation_read', 'mtime_recurrence', 'same_second_edit') if info[k]])
		for sig, detail in fails:
			ctx.fail(sig, detail, case)

	core.drive(ctx, cases(frozenset(ctx.excluded)), body, total=ctx.budget['histories'], chunk=4)


def replay(case: dict) -> list[tuple[str, str]]:
	from vf import env
	with env.Scratch('c05r') as s:
		return run_judge(s.path, case)[0]


def shrink(failure: dict) -> dict | None:
	from vf import env
	case = failure['case']
	sig = failure['sig']
	with env.Scratch('c05s') as s:
		ops = list(case['ops'])
		budget = 25
		changed = True
		while changed and len(ops) > 1 and budget > 0:
			changed = False
			for i in range(len(ops)):
				cand = ops[:i] + ops[i + 1:]
				budget -= 1
				fails, _ = run_judge(s.path, dict(case, ops=cand))
				if any(x == sig for x, _ in fails):
					ops, changed = cand, True
					break
				if budget <= 0:
					break
		fails, _ = run_judge(s.path, dict(case, ops=ops))
		detail = [d for x, d in fails if x == sig]
		return dict(failure, case=dict(case, ops=ops), detail=detail[0]) if detail else None
