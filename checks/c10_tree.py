"""C10 — tree addressing is a bijection and node resolution is order-independent."""
import os

from hypothesis import strategies as st

from vf import core

PROPERTY = 'C10'
LEVEL = 'exploration'
RULE = ('(a) random EntryOfDict trees (depth <= 6, fan-out <= 6, tags from a 4-letter alphabet, None children, tokens with/without value): full_pathfy/pluck/exists/EntryCache against a '
	'reference addressing model computed from the raw tree; (b) lark trees of generated (G2) and real (G3) modules: the same laws plus Nodes.id/parent/children/siblings/ancestor/values/source_map '
	'against the raw tree; (c) class-per-path map after a random permutation of mixed queries on a fresh container equals the map obtained in document order on another fresh container. '
	'non-trivial: (a) a parent with >= 2 children of one tag and a child of a unique tag, depth >= 3; (b,c) module with >= 2 block levels or >= 3 operator levels, and for (c) a child queried before its parent; distinct by tree/source hash (+ permutation)')
ASSUMPTIONS = [
	'ancestor(tag) is only queried with tags that occur on the path (an absent tag has no documented outcome)',
	'reference model of Nodes queries: parent = nearest ancestor whose tag can_resolve; children/siblings = direct child entries in source order; values = pre-order token values',
]
BUDGET = {
	'quick': {'seconds': 40, 'trees': 2500, 'modules': 400, 'shards': 16},
	'thorough': {'seconds': 560, 'trees': 150000, 'modules': 20000, 'shards': 16},
}


# ---------------------------------------------------------------------------------------
# (a) random dict trees

@st.composite
def dict_trees(draw):
	rnd = draw(st.randoms(use_true_random=False))
	# single letters, or names that are string prefixes of each other (list / list_comp, tree / tree_b): paths are compared as strings in several places
	tags = rnd.choice(['abcd', 'abcd', ['list', 'list_comp', 'li', 'tree', 'tree_b'], ['a', 'ab', 'abc', 'b']])

	def build(depth: int):
		c = rnd.randint(0, 9)
		if depth <= 0 or c <= 2:
			if c == 0:
				return None
			tok = {'name': rnd.choice(list(tags)).upper() if rnd.random() < 0.5 else rnd.choice(list(tags))}
			tok['value'] = rnd.choice(['', 'v', 'x1']) if rnd.random() < 0.8 else ''
			return tok
		n = rnd.randint(0, 6)
		pool = rnd.choice([list(tags), list(tags)[:2], list(tags)[:1]])
		kids = []
		for _ in range(n):
			k = build(depth - 1)
			if isinstance(k, dict) and 'children' in k:
				k['name'] = rnd.choice(pool)
			kids.append(k)
		return {'name': rnd.choice(list(tags)), 'children': kids}

	root = build(rnd.randint(2, 6))
	if not isinstance(root, dict) or 'children' not in root:
		root = {'name': 'r', 'children': [root]}
	return root


def ref_paths(entry, wrap):
	"""Reference addressing model: [(path, raw entry, depth)] in pre-order, computed from the raw tree."""
	out = []

	def name_of(e) -> str:
		return wrap(e).name

	def walk(e, path: str, depth: int) -> None:
		out.append((path, e, depth))
		kids = children_of(e)
		names = [name_of(k) for k in kids]
		for i, k in enumerate(kids):
			elem = names[i] if names.count(names[i]) == 1 else f'{names[i]}[{i}]'
			walk(k, f'{path}.{elem}', depth + 1)

	def children_of(e):
		w = wrap(e)
		return [c.source for c in w.children] if w.has_child else []

	walk(entry, str(name_of(entry)), 0)
	return out


def judge_addressing(root_entry, wrap, what: str) -> tuple[list[tuple[str, str]], dict]:
	from rogw.tranp.errors import Errors
	from rogw.tranp.syntax.ast.cache import EntryCache
	from rogw.tranp.syntax.ast.finder import ASTFinder

	fails: list[tuple[str, str]] = []
	finder = ASTFinder()
	ref = ref_paths(root_entry.source, wrap)
	got = finder.full_pathfy(root_entry)
	info = {'entries': len(ref)}
	if len(got) != len(ref):
		fails.append((f'{what}:pathfy:count', f'{len(got)} paths for {len(ref)} entries'))
		return fails, info
	if [str(k) for k in got.keys()] != [p for p, _, _ in ref]:
		k = next(i for i, (x, y) in enumerate(zip(got.keys(), ref)) if str(x) != y[0])
		fails.append((f'{what}:pathfy:paths', f'path #{k}: got {list(got.keys())[k]!r}, reference {ref[k][0]!r}'))
		return fails, info
	for (path, raw, _), (gpath, gentry) in zip(ref, got.items()):
		if gentry.source is not raw:
			fails.append((f'{what}:pathfy:entry', f'{path}: full_pathfy maps to another entry'))
			break
		try:
			plucked = finder.pluck(root_entry, path)
		except Errors.NodeNotFound:
			fails.append((f'{what}:pluck:not-found', f'{path}'))
			break
		if plucked.source is not raw:
			fails.append((f'{what}:pluck:other-entry', f'{path}: pluck returned {plucked.name!r}'))
			break
		if not finder.exists(root_entry, path):
			fails.append((f'{what}:exists:false', path))
			break
	paths = {p for p, _, _ in ref}
	for path, _, _ in ref[:: max(1, len(ref) // 8)]:
		# only a child tag that does not occur is probed: index lookup ignores the tag by design (finder.py:42-71)
		bogus = path + '.zz'
		if bogus not in paths and finder.exists(root_entry, bogus):
			fails.append((f'{what}:exists:true-for-missing', bogus))
	cache = EntryCache()
	for p, e in got.items():
		cache.add(p, e)
	for i, (path, raw, _) in enumerate(ref):
		if cache.index_of(path) != i:
			fails.append((f'{what}:cache:id-order', f'{path}: id {cache.index_of(path)} expected {i}'))
			break
		if cache.by(path).source is not raw:
			fails.append((f'{what}:cache:by', path))
			break
	return fails, info


def tree_nontrivial(root) -> bool:
	def depth(e) -> int:
		if not isinstance(e, dict) or 'children' not in e:
			return 0
		return 1 + max([depth(k) for k in e['children']] or [0])

	def shape(e) -> bool:
		if not isinstance(e, dict) or 'children' not in e:
			return False
		names = [k['name'] if k is not None else '__empty__' for k in e['children']]
		if any(names.count(n) >= 2 for n in names) and any(names.count(n) == 1 for n in names):
			return True
		return any(shape(k) for k in e['children'])

	return depth(root) >= 3 and shape(root)


# ---------------------------------------------------------------------------------------
# (b) Nodes queries against the raw tree, (c) permutation

def _entry_path():
	from rogw.tranp.syntax.ast.path import EntryPath
	return EntryPath


def judge_nodes(app, entry, queries: list | None) -> tuple[list[tuple[str, str]], dict]:
	from rogw.tranp.errors import Errors
	from rogw.tranp.implements.syntax.lark.entry import EntryOfLark
	from rogw.tranp.syntax.node.resolver import NodeResolver
	from vf import sut

	wrap = EntryOfLark
	fails, info = judge_addressing(entry, wrap, 'lark')
	if fails:
		return fails, info
	ref = ref_paths(entry.source, wrap)
	index = {p: i for i, (p, _, _) in enumerate(ref)}
	raw_of = {p: r for p, r, _ in ref}

	def kids(path: str) -> list[str]:
		d = path.count('.')
		i = index[path] + 1
		out = []
		while i < len(ref) and ref[i][0].startswith(path + '.'):
			if ref[i][0].count('.') == d + 1:
				out.append(ref[i][0])
			i += 1
		return out

	ep = app.nodes_for(entry)
	nodes = sut.nodes_of(ep)
	resolver = ep._Node__nodes._Nodes__resolver if hasattr(ep._Node__nodes, '_Nodes__resolver') else None
	if resolver is None:
		raise core.HarnessError('cannot reach the NodeResolver of the container')

	def tag_of(path: str) -> str:
		last = path.split('.')[-1]
		return last.split('[')[0]

	step = max(1, len(ref) // 150)
	for path, raw, depth in ref[::step]:
		try:
			if nodes.id(path) != index[path]:
				fails.append(('nodes:id', f'{path}: id {nodes.id(path)} expected {index[path]}'))
				break
			# parent
			elems = path.split('.')
			want_parent = None
			for k in range(len(elems) - 1, 0, -1):
				if resolver.can_resolve(tag_of('.'.join(elems[:k]))):
					want_parent = '.'.join(elems[:k])
					break
			try:
				got_parent = nodes.parent(path).full_path
			except Errors.NodeNotFound:
				got_parent = None
			if got_parent != want_parent:
				fails.append(('nodes:parent', f'{path}: parent {got_parent!r} expected {want_parent!r}'))
				break
			got_kids = [n.full_path for n in nodes.children(path)]
			if got_kids != kids(path):
				fails.append(('nodes:children', f'{path}: {got_kids[:6]} expected {kids(path)[:6]}'))
				break
			if depth > 0:
				up = '.'.join(elems[:-1])
				got_sib = [n.full_path for n in nodes.siblings(path)]
				if got_sib != kids(up):
					fails.append(('nodes:siblings', f'{path}: {got_sib[:6]} expected {kids(up)[:6]}'))
					break
				tags = [tag_of('.'.join(elems[:k])) for k in range(1, len(elems) + 1)]
				probe = tags[len(tags) // 2]
				want_anc = '.'.join(elems[:len(tags) - tags[::-1].index(probe)])
				got_anc = nodes.ancestor(path, probe).full_path
				if got_anc != want_anc:
					fails.append(('nodes:ancestor', f'{path}#{probe}: {got_anc!r} expected {want_anc!r}'))
					break
			i = index[path]
			vals = []
			while i < len(ref) and (ref[i][0] == path or ref[i][0].startswith(path + '.')):
				v = wrap(ref[i][1]).value
				if v:
					vals.append(v)
				i += 1
			if nodes.values(path) != vals:
				fails.append(('nodes:values', f'{path}: {nodes.values(path)[:6]} expected {vals[:6]}'))
				break
			if nodes.source_map(path) != wrap(raw).source_map:
				fails.append(('nodes:source_map', path))
				break
			# expand(path): every direct child whose tag has a node class of its own is among the expanded nodes (it cannot lie below another
			# expanded entry), and everything expanded lies below path
			resolver = getattr(nodes, '_Nodes__resolver', None)
			if resolver is not None:
				expanded = [n.full_path for n in nodes.expand(path)]
				outside = [p for p in expanded if not p.startswith(path + '.')]
				if outside:
					fails.append(('nodes:expand:outside', f'{path}: {outside[:3]}'))
					break
				direct = [p for p, _, _ in ref if p.startswith(path + '.') and p.count('.') == path.count('.') + 1]
				missing = [p for p in direct if resolver.can_resolve(_entry_path()(p).last_tag) and p not in expanded]
				if missing:
					fails.append(('nodes:expand:direct-child-missing', f'{path}: expand gives {expanded[:4]}, misses {missing[:3]}'))
					break
		except Errors.Error as e:
			fails.append((f'nodes:raises:{type(e).__name__}', f'{path}: {e}'))
			break
	if fails:
		return fails, info

	# (c) class map in document order on a fresh container vs. after a permutation of mixed queries on another
	def class_map(nodes_) -> dict:
		out = {}
		for p, _, _ in ref:
			try:
				out[p] = type(nodes_.by(p)).__name__
			except Errors.Error as e:
				out[p] = 'ERR:' + type(e).__name__
		return out

	base = class_map(sut.nodes_of(app.nodes_for(entry)))
	info['classes'] = len(set(base.values()))
	if queries is not None:
		ep2 = app.nodes_for(entry)
		n2 = sut.nodes_of(ep2)
		child_first = False
		touched: set[str] = set()
		for kind, k in queries:
			path = ref[k % len(ref)][0]
			if any(path.startswith(t + '.') for t in touched) is False and any(t.startswith(path + '.') for t in touched):
				child_first = True
			touched.add(path)
			try:
				if kind == 'by':
					n2.by(path)
				elif kind == 'parent':
					n2.parent(path)
				elif kind == 'children':
					n2.children(path)
				elif kind == 'expand':
					n2.expand(path)
				elif kind == 'procedural':
					n2.by(path).procedural()
				elif kind == 'props':
					node = n2.by(path)
					for key in node.prop_keys():
						try:
							getattr(node, key)
						except Errors.Error:
							pass
				elif kind == 'tokens':
					n2.by(path).tokens
			except Errors.Error:
				pass
			except RecursionError:
				pass
		info['child_first'] = child_first
		after = class_map(n2)
		if after != base:
			diff = [(p, base[p], after[p]) for p in base if base[p] != after[p]][:3]
			fails.append(('nodes:order-dependent-class', f'{diff}'))
	return fails, info


_app = None


def app(scratch: str):
	global _app
	if _app is None:
		from vf import sut
		_app = sut.TreeApp(scratch)
	return _app


@st.composite
def module_cases(draw):
	from vf import syngen
	rnd = draw(st.randoms(use_true_random=False))
	src, stats = syngen.gen_module(rnd, rnd.choice(['mixed', 'mixed', 'expr']))
	queries = [(rnd.choice(['by', 'by', 'parent', 'children', 'expand', 'procedural', 'props', 'tokens']), rnd.randint(0, 10 ** 6)) for _ in range(rnd.randint(5, 60))]
	return {'source': src, 'queries': queries, 'stats': stats}


def judge_module(scratch: str, case: dict) -> tuple[list[tuple[str, str]], dict]:
	import ast
	a = app(scratch)
	try:
		ast.parse(case['source'])
	except (SyntaxError, ValueError):
		return [('OUT', 'cpython')], {}
	try:
		entry = a.parse(case['source'])
	except Exception:
		return [('OUT', 'lark')], {}
	q = [tuple(x) for x in case['queries']] if case.get('queries') is not None else None
	return judge_nodes(a, entry, q)


def shard(ctx: core.Ctx) -> None:
	from rogw.tranp.syntax.ast.entry import EntryOfDict
	from vf import corpus

	def tree_body(tree) -> None:
		fails, info = judge_addressing(EntryOfDict(tree), EntryOfDict, 'dict')
		ctx.case(tree, tree_nontrivial(tree), sample={'dict_tree': tree} if info['entries'] < 25 else None, labels=['dict-tree'])
		for sig, detail in fails:
			ctx.fail(sig, detail + f'\n  tree={tree}', {'kind': 'dict', 'tree': tree})

	def module_body(case: dict) -> None:
		fails, info = judge_module(ctx.scratch, case)
		if fails and fails[0][0] == 'OUT':
			ctx.discard('rejected-by-' + fails[0][1])
			ctx.evaluations += 1
			return
		st_ = case['stats']
		nontrivial = (st_['block_depth'] >= 2 or st_['op_levels'] >= 3) and info.get('child_first', False)
		ctx.case([case['source'], case['queries']], nontrivial, sample={'source': case['source'], 'queries': case['queries'][:8]} if len(case['source']) < 400 else None,
			labels=['g2-module'] + (['child-before-parent'] if info.get('child_first') else []))
		for sig, detail in fails:
			ctx.fail(sig, detail + f'\n  source={case["source"]!r}', {'kind': 'module', 'source': case['source'], 'queries': case['queries']})

	# G3 first (finite, enumerated)
	a = app(ctx.scratch)
	for path in corpus.shard_files(ctx.tier, ctx.shard, ctx.nshards):
		src = corpus.read(path)
		rel = os.path.relpath(path, __import__('vf.env', fromlist=['REPO']).REPO)
		try:
			entry = a.parse(src)
		except Exception:
			ctx.discard('g3-rejected-by-lark')
			continue
		qs = [(k, i * 7919) for i, k in enumerate(['procedural', 'props', 'expand', 'children', 'parent', 'by'] * 6)]
		fails, info = judge_nodes(a, entry, qs)
		ctx.case(rel, True, labels=['g3-module'])
		for sig, detail in fails:
			ctx.fail(sig, f'{rel}: {detail}', {'kind': 'file', 'path': rel})
		if ctx.out_of_time():
			break
	import time
	end = ctx.deadline
	ctx.deadline = end - 0.25 * (end - time.time())  # modules get 3/4 of what the real modules left over, random trees the rest
	core.drive(ctx, module_cases(), module_body, total=ctx.budget['modules'], chunk=50)
	ctx.deadline = end
	core.drive(ctx, dict_trees(), tree_body, total=ctx.budget['trees'], chunk=500)


def replay(case: dict) -> list[tuple[str, str]]:
	from rogw.tranp.syntax.ast.entry import EntryOfDict
	from vf import corpus, env
	global _app
	if case['kind'] == 'dict':
		return judge_addressing(EntryOfDict(case['tree']), EntryOfDict, 'dict')[0]
	with env.Scratch('c10r') as s:
		_app = None
		try:
			if case['kind'] == 'file':
				a = app(s.path)
				entry = a.parse(corpus.read(os.path.join(env.REPO, case['path'])))
				qs = [(k, i * 7919) for i, k in enumerate(['procedural', 'props', 'expand', 'children', 'parent', 'by'] * 6)]
				return judge_nodes(a, entry, qs)[0]
			fails, _ = judge_module(s.path, case)
			return [f for f in fails if f[0] != 'OUT']
		finally:
			_app = None
