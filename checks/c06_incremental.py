"""C06 — non-forced runs leave every output equal to a forced run (history testing of the CLI Runner)."""
import os
import re
import shutil
import tempfile

from hypothesis import strategies as st

from vf import core


class quiet_stdout:
	"""Swallows what the -v / -p options print (fd level is not needed: everything goes through sys.stdout)."""

	def __init__(self, on: bool) -> None:
		self.on = on

	def __enter__(self):
		import io
		import sys
		self.saved = sys.stdout
		if self.on:
			sys.stdout = io.StringIO()

	def __exit__(self, *a):
		import sys
		sys.stdout = self.saved

PROPERTY = 'C06'
LEVEL = 'exploration'
RULE = ('scratch CLI projects (module graphs pair/chain/diamond/4-chain spread over two input directories, output_dirs built from an injective family: a glob rule "{in}/*:{out}", a prefix rule "{in}/:{out}" and the fallback); '
	'histories of edit(module, variant), run, run -f, delete-output(module), corrupt-header(module: remove the line / change the recorded hash, application version, transpiler version, transpiler class or module path / garble the JSON; every history ends with one such single-field difference followed by a non-forced run); oracle after every non-forced run: the output tree (paths and bytes) equals '
	'the tree a forced run writes on a copy; files whose content and header already equal the forced result keep their mtime; every output starts with a header that MetaHeader reads back to the same string; '
	'the set of output paths equals the reference model of the mapping rules (all distinct); non-trivial = two runs with an edit of an imported module between them, or a delete-output/corrupt-header before a non-forced run; distinct by (graph, history)')
ASSUMPTIONS = [
	'Versions (transpiler/application version) are code, not state: not varied',
	'each run is a fresh App in-process with cwd = project (what a command-line invocation is)',
]
BUDGET = {
	'quick': {'seconds': 60, 'histories': 8, 'shards': 16},
	'thorough': {'seconds': 560, 'histories': 300, 'shards': 16},
}


@st.composite
def cases(draw, exclude: frozenset = frozenset()):
	from vf import project as P
	rnd = draw(st.randoms(use_true_random=False))
	gname = rnd.choice(['pair', 'chain', 'chain', 'diamond', 'chain4'])
	graph = P.GRAPHS[gname]
	mods = sorted(graph)
	pkg = {m: rnd.choice(['srca', 'srcb', 'srca', 'srcb', 'srca/deep', 'srcb/srcb', 'srcb/my_srcb', 'other']) for m in mods}  # the prefix text occurs again inside some paths
	ops = []
	for _ in range(rnd.randint(3, 9)):
		k = rnd.choice(['edit', 'edit', 'edit_ws', 'run', 'run', 'run', 'run_f', 'delete_output', 'corrupt_header'])
		m = rnd.choice(mods)
		visible = rnd.randint(0, P.VISIBLE[m] - 1)
		if 'dependency-visible-edit' in exclude and P.dependents(graph, m):
			visible = 0  # known finding: importers are not regenerated after a dependency edit; keep such edits invisible
		mode = rnd.choice(['remove', 'hash', 'garble', 'app-version', 'transpiler-version', 'module-path', 'transpiler-module'])
		if 'garbled-header' in exclude and mode == 'garble':
			mode = 'hash'
		# the reporting options of the command line (-v log of every handler, -p profile) must not change what a run writes
		opts = rnd.choice(['', '', '', '-v', '-v', '-p']) if k == 'run' else ''
		ops.append([k, m, visible, rnd.randint(1, 3), mode, opts])
	# every history ends with an output whose recorded header differs from the current one in exactly one field (or is missing), followed by
	# a non-forced run: each of the four header fields the property names decides regeneration on its own
	tail_mode = rnd.choice(['hash', 'app-version', 'transpiler-version', 'module-path', 'module-path', 'transpiler-module', 'remove'])
	ops.append(['corrupt_header', rnd.choice(mods), 0, 1, tail_mode, ''])
	ops.append(['run', mods[0], 0, 1, 'remove', rnd.choice(['', '', '-v'])])
	# overlapping input globs: one module file is also named explicitly, so it is listed twice
	return {'graph': gname, 'pkg': pkg, 'ops': ops, 'also_listed': rnd.choice(mods) if rnd.random() < 0.4 else None}


def expected_path(pkg: str, m: str) -> str:
	"""Reference model of Runner.fetch_output_path for output_dirs = ['srca/*:outA', 'srcb/:outB', 'out/']."""
	if pkg == 'srca' or pkg.startswith('srca/'):
		return f'outA/{pkg}/{m}.h'       # glob rule: the whole input path below the output directory
	if pkg == 'srcb' or pkg.startswith('srcb/'):
		return f'outB/{pkg[len("srcb/"):] + "/" if pkg != "srcb" else ""}{m}.h'   # prefix rule: only the *leading* prefix is replaced
	return f'out/{pkg}/{m}.h'            # fallback entry


def judge(scratch: str, case: dict) -> tuple[list[tuple[str, str]], dict]:
	from rogw.tranp.data.meta.header import MetaHeader
	from rogw.tranp.errors import Errors
	from vf import project as P
	graph = P.GRAPHS[case['graph']]
	pkg = case['pkg']
	out_dirs = ('outA', 'outB', 'out')
	work = tempfile.mkdtemp(prefix='c06-', dir=scratch)
	info = {'edit_between_runs': False, 'repair_before_run': False, 'runs': 0}
	fails: list[tuple[str, str]] = []
	trace: list[str] = []
	try:
		proj = os.path.join(work, 'proj')
		for d in set(pkg.values()):
			os.makedirs(os.path.join(proj, d), exist_ok=True)
		also = case.get('also_listed')
		P.write_config(proj, ['srca/*:outA', 'srcb/:outB', 'out/'], ([f'{pkg[also]}/{also}.py'] if also else []) + sorted({f'{d}/*.py' for d in pkg.values()}))
		for m in graph:
			P.bump_write(os.path.join(proj, pkg[m], m + '.py'), P.module_source(m, pkg, 0, 1, graph))
		step = 0
		state = {m: (0, 1) for m in graph}
		last_edit = {m: 0 for m in graph}
		last_gen = {m: -1 for m in graph}
		edited_dep_since_run = False
		repaired_since_run = False
		runs = 0

		def out_tree(root: str) -> dict:
			t = {}
			for d in out_dirs:
				if os.path.isdir(os.path.join(root, d)):
					for k, v in P.tree(os.path.join(root, d)).items():
						t[f'{d}/{k}'] = v
			return t

		def mtimes(root: str) -> dict:
			return {k: os.stat(os.path.join(root, k)).st_mtime_ns for k in out_tree(root)}

		for op in case['ops']:
			kind, m, visible, invisible, mode = op[:5]
			if fails:
				break
			step += 1
			path_out = os.path.join(proj, expected_path(pkg[m], m))
			if kind == 'edit_ws':
				# only the number of blanks behind a comment changes
				vis0, inv0 = state[m]
				visible, invisible = vis0, inv0 % 10 + 10 * ((inv0 // 10 + 1) % 3)
				kind = 'edit'
			if kind == 'edit':
				state[m] = (visible, invisible)
				P.bump_write(os.path.join(proj, pkg[m], m + '.py'), P.module_source(m, pkg, visible, invisible, graph))
				last_edit[m] = step
				trace.append(f'edit({m}, visible={visible}, body={invisible % 10}, blanks behind comment={invisible // 10})')
				if P.dependents(graph, m) and runs:
					edited_dep_since_run = True
			elif kind == 'delete_output':
				if os.path.exists(path_out):
					os.unlink(path_out)
					repaired_since_run = True
					trace.append(f'delete-output({m})')
			elif kind == 'corrupt_header':
				if os.path.exists(path_out):
					lines = open(path_out).read().split('\n')
					if mode == 'remove':
						lines = lines[1:]
					elif mode == 'hash':
						lines[0] = lines[0].replace('"hash":"', '"hash":"0')
					elif mode == 'app-version':  # an output left behind by another release of the application
						lines[0] = re.sub(r'\{"version":"[^"]*"', '{"version":"0.9.9"', lines[0], count=1)
					elif mode == 'transpiler-version':
						lines[0] = re.sub(r'"transpiler":\{"version":"[^"]*"', '"transpiler":{"version":"0.9.9"', lines[0], count=1)
					elif mode == 'module-path':
						lines[0] = lines[0].replace('"path":"', '"path":"zz.', 1)
					elif mode == 'transpiler-module':
						lines[0] = lines[0].replace('Py2Cpp"', 'Py2Cxx"', 1)
					else:
						lines[0] = lines[0][:len(lines[0]) // 2]
					with open(path_out, 'w') as f:
						f.write('\n'.join(lines))
					repaired_since_run = True
					trace.append(f'corrupt-header({m}, {mode})')
			elif kind in ('run', 'run_f'):
				forced = kind == 'run_f'
				runs += 1
				info['runs'] += 1
				opts = op[5] if len(op) > 5 and not forced else ''
				trace.append('run -f' if forced else f'run {opts}'.strip())
				copy = os.path.join(work, f'copy{step}')
				P.copy_project(proj, copy, with_cache=True)
				try:
					P.run_cli(copy, force=True)
					expect = out_tree(copy)
				except Errors.Error as e:
					expect = f'ERROR {type(e).__name__}'
				shutil.rmtree(copy, ignore_errors=True)
				before, before_m = out_tree(proj), mtimes(proj)
				try:
					with quiet_stdout(bool(opts)):
						P.run_cli(proj, force=forced, extra=[opts] if opts else None)
					got = out_tree(proj)
				except Errors.Error as e:
					got = f'ERROR {type(e).__name__}'
				except Exception as e:
					got = f'CRASH {type(e).__name__}'
				if not forced:
					if edited_dep_since_run:
						info['edit_between_runs'] = True
					if repaired_since_run:
						info['repair_before_run'] = True
				if isinstance(got, str) or isinstance(expect, str):
					if got != expect:
						fails.append((f'run-outcome:{got if isinstance(got, str) else "ok"}'.split(' ')[0] + ':' + (got.split(' ')[-1] if isinstance(got, str) else 'ok'), f'run {got if isinstance(got, str) else "ok"}, forced run on a copy {expect if isinstance(expect, str) else "ok"}\n  history: {"; ".join(trace)}'))
					edited_dep_since_run = repaired_since_run = False
					continue
				after_m = mtimes(proj)
				for k in got:
					if before_m.get(k) != after_m.get(k):
						mod = os.path.basename(k)[:-2]
						last_gen[mod] = step
				want_paths = sorted(expected_path(pkg[x], x) for x in graph)
				if sorted(expect) != want_paths:
					fails.append(('output-paths:differ-from-mapping-model', f'forced run wrote {sorted(expect)}, mapping rules give {want_paths}\n  pkg={pkg}'))
				if got != expect:
					bad = sorted(k for k in set(got) | set(expect) if got.get(k) != expect.get(k))
					mod = os.path.basename(bad[0])[:-2]
					closure = set()
					todo = list(graph.get(mod, []))
					while todo:
						x = todo.pop()
						if x not in closure:
							closure.add(x)
							todo += graph[x]
					stale = bad[0] in got and last_edit.get(mod, 0) <= last_gen.get(mod, -1) and any(last_edit[x] > last_gen.get(mod, -1) for x in closure)
					cause = 'stale-importer-after-dependency-edit' if stale else ('missing-output' if bad[0] not in got else 'other')
					la, lb = expect.get(bad[0], b'').decode().split('\n'), got.get(bad[0], b'').decode().split('\n')
					k = next((i for i, (x, y) in enumerate(zip(la, lb)) if x != y), min(len(la), len(lb)))
					fails.append((f'differs-from-forced:{cause}', f'{bad[0]} line {k + 1}: forced {la[k][:150] if k < len(la) else "<eof>"!r}, non-forced {lb[k][:150] if k < len(lb) else "<eof>"!r}\n  graph {case["graph"]}; history: {"; ".join(trace)}'))
				elif not forced:
					for k, v in got.items():
						if k in before and before[k] == v and before_m[k] != after_m[k]:
							fails.append(('untouched-file-rewritten', f'{k} already had the forced content and header but was rewritten\n  history: {"; ".join(trace)}'))
							break
				for k, v in (got.items() if not isinstance(got, str) else []):
					text = v.decode()
					first = text.split('\n')[0]
					try:
						h = MetaHeader.try_from_content(text)
						back = h.to_header_str() if h else None
					except Exception as e:
						back = f'RAISES {type(e).__name__}'
					if back != first[3:]:
						fails.append(('header:roundtrip', f'{k}: first line {first!r}, read back {back!r}'))
						break
				edited_dep_since_run = repaired_since_run = False
		return fails, info
	finally:
		shutil.rmtree(work, ignore_errors=True)


def shard(ctx: core.Ctx) -> None:
	def body(case: dict) -> None:
		fails, info = judge(ctx.scratch, case)
		ctx.extra['runs'] = ctx.extra.get('runs', 0) + info['runs']
		ctx.case([case['graph'], case['pkg'], case['ops']], info['edit_between_runs'] or info['repair_before_run'],
			sample={'graph': case['graph'], 'dirs': case['pkg'], 'history': [f'{o[0]}({o[1]})' if o[0] not in ('run', 'run_f') else f'{o[0]} {o[5] if len(o) > 5 else ""}'.strip() for o in case['ops']]},
			labels=['history', case['graph']] + (['module-listed-twice'] if case.get('also_listed') else []) + [k for k in ('edit_between_runs', 'repair_before_run') if info[k]])
		for sig, detail in fails:
			ctx.fail(sig, detail, case)

	core.drive(ctx, cases(frozenset(ctx.excluded)), body, total=ctx.budget['histories'], chunk=4)


def replay(case: dict) -> list[tuple[str, str]]:
	from vf import env
	with env.Scratch('c06r') as s:
		return judge(s.path, case)[0]


def shrink(failure: dict) -> dict | None:
	from vf import env
	case = failure['case']
	sig = failure['sig']
	with env.Scratch('c06s') as s:
		ops = list(case['ops'])
		budget = 25
		changed = True
		while changed and len(ops) > 1 and budget > 0:
			changed = False
			for i in range(len(ops)):
				cand = ops[:i] + ops[i + 1:]
				budget -= 1
				fails, _ = judge(s.path, dict(case, ops=cand))
				if any(x == sig for x, _ in fails):
					ops, changed = cand, True
					break
				if budget <= 0:
					break
		fails, _ = judge(s.path, dict(case, ops=ops))
		detail = [d for x, d in fails if x == sig]
		return dict(failure, case=dict(case, ops=ops), detail=detail[0]) if detail else None
