"""C19 — the dependency container follows its simple reference model (model-based, histories).

Histories are generated as operation lists (Hypothesis shrinks the whole list); every operation
is applied to the real container(s) and to the reference model below, which is written from the
property statement and the docstrings of lang/di.py, not from the implementation.
"""
from hypothesis import strategies as st

from vf import core

PROPERTY = 'C19'
LEVEL = 'exploration'
RULE = ('operation sequences (new container with direct/by-name lazy definitions, bind, unbind, rebind, resolve, can_resolve, invoke, '
	'clone-and-combine) of length <= 40 over 6 symbols (one generic, addressed as G and G[int]) and 17 factories (functions, classes, bound methods); '
	'compared with a reference model after every step (exception class, identity of resolved objects and of their injected dependencies, can_resolve for '
	'the whole universe of every container); non-trivial = a combine after an operand resolved a symbol, followed by a resolve/rebind on an operand and on the result; distinct by history hash')
ASSUMPTIONS = [
	'factories are functions, classes or bound methods with fully annotated parameters (the shapes the docstrings list); callable objects and unannotated parameters are not generated',
	'a mismatching invoke/resolve is only generated as the first call of that factory in that container (the implementation validates the first call only; the model says ValueError on every call)',
	'bind() on a symbol that is registered by name but not yet materialised is not generated (no documented outcome)',
	'DI and LazyDI containers are never mixed in one combine',
	'bindings are acyclic (a factory is only bound to a symbol of higher rank than its dependencies)',
]
BUDGET = {
	'quick': {'seconds': 22, 'examples': 1500, 'shards': 16},
	'thorough': {'seconds': 420, 'examples': 60000, 'shards': 16},
}

RANK = {0: 0, 1: 1, 2: 2, 3: 3, 4: 4, 5: -1}  # symbol index -> rank (G lowest)


def _universe():
	from vf import di_universe as u
	return u


def allowed(sym: int, fac: str) -> bool:
	u = _universe()
	deps = [p for p in u.FACTORIES[fac][1] if isinstance(p, int)]
	return all(RANK[d] < RANK[sym] for d in deps)


# ---------------------------------------------------------------------------------------
# generation

def ops_strategy():
	u = _universe()
	nsym, facs = len(u.SYMBOLS), u.FACTORY_NAMES
	sym = st.integers(0, nsym - 1)
	fac = st.sampled_from(facs)
	c = st.integers(0, 7)
	lazy_def = st.tuples(sym, fac, st.booleans())
	op = st.one_of(
		st.tuples(st.just('new'), st.lists(lazy_def, max_size=4)),
		st.tuples(st.just('bind'), c, sym, fac, st.booleans()),
		st.tuples(st.just('bind'), c, sym, fac, st.booleans()),
		st.tuples(st.just('unbind'), c, sym, st.booleans()),
		st.tuples(st.just('unbind'), c, st.integers(6, 40), st.booleans()),
		st.tuples(st.just('rebind'), c, sym, fac, st.booleans()),
		st.tuples(st.just('resolve'), c, sym, st.booleans()),
		st.tuples(st.just('resolve'), c, st.integers(6, 40), st.booleans()),
		st.tuples(st.just('resolve'), c, st.integers(6, 40), st.booleans()),
		st.tuples(st.just('resolve'), c, st.integers(6, 40), st.booleans()),
		st.tuples(st.just('rebind'), c, st.integers(6, 40), fac, st.booleans()),
		st.tuples(st.just('invoke'), c, fac, st.sampled_from(['ok', 'ok', 'ok', 'short', 'long', 'type'])),
		st.tuples(st.just('combine'), c, c),
		st.tuples(st.just('combine'), c, c),
		# invoke f, unbind one of the symbols invoke just injected into f, invoke f again (nothing is bound in between)
		st.tuples(st.just('invoke_unbind_invoke'), c, fac, st.integers(0, 3)),
	)
	low_sym = st.integers(0, 2)
	leaf = st.sampled_from(['f0', 'f0b', 'K0', 'm0', 'f1', 'K1', 'm1'])
	rich_def = st.one_of(lazy_def, st.tuples(low_sym, leaf, st.booleans()), st.tuples(st.just(5), st.sampled_from(['f0', 'K0', 'm0']), st.booleans()))
	first = st.tuples(st.just('new'), st.lists(rich_def, min_size=1, max_size=5))
	return st.tuples(st.booleans(), st.lists(rich_def, min_size=1, max_size=6), st.tuples(first, st.lists(op, min_size=4, max_size=40)).map(lambda t: [t[0]] + t[1]))


# ---------------------------------------------------------------------------------------
# reference model

class MObj:
	def __init__(self, serial: int, factory: str, deps: tuple, rest: tuple) -> None:
		self.serial, self.factory, self.deps, self.rest = serial, factory, deps, rest


class MEntry:
	def __init__(self, factory: str, lazy: bool) -> None:
		self.factory = factory
		self.instance: MObj | None = None
		self.lazy_only = lazy  # registered by name, not yet materialised


class MContainer:
	def __init__(self) -> None:
		self.map: dict[int, MEntry] = {}
		self.invoked: set[str] = set()

	def copy_entries(self) -> dict[int, MEntry]:
		out = {}
		for s, e in self.map.items():
			n = MEntry(e.factory, e.lazy_only)
			n.instance = e.instance
			out[s] = n
		return out


class Mismatch(Exception):
	pass


class Skip(Exception):
	"""The operation is outside the stated domain in the current state."""


class Model:
	def __init__(self) -> None:
		self.serial = 0

	def plan_invoke(self, c: MContainer, fac: str, rest: tuple | None, dry: bool) -> list:
		"""Returns the parameter list split: (curried symbol indices, remaining annotations)."""
		params = _universe().FACTORIES[fac][1]
		curried = []
		for p in params:
			if isinstance(p, int) and p in c.map:
				curried.append(p)
			else:
				break
		return [curried, params[len(curried):]]

	def would_mismatch(self, c: MContainer, fac: str, nrest: int, seen: tuple = ()) -> bool:
		"""True if invoking `fac` with nrest correct trailing values hits a mismatch anywhere in the nested resolution."""
		curried, remain = self.plan_invoke(c, fac, None, True)
		for s in curried:
			e = c.map[s]
			if e.instance is None and self.would_mismatch(c, e.factory, 0):
				return True
		return len(remain) != nrest

	def first_calls_only(self, c: MContainer, fac: str) -> bool:
		"""All factories that a mismatching nested resolution would reach must be un-invoked in c."""
		if fac in c.invoked:
			return False
		curried, _ = self.plan_invoke(c, fac, None, True)
		for s in curried:
			e = c.map[s]
			if e.instance is None and self.would_mismatch(c, e.factory, 0) and not self.first_calls_only(c, e.factory):
				return False
		return True

	def invoke(self, c: MContainer, fac: str, rest: tuple, rest_ok: bool) -> MObj:
		curried, remain = self.plan_invoke(c, fac, rest, False)
		c.invoked.add(fac)  # the signature is cached before the dependencies are resolved
		deps = tuple(self.resolve(c, s) for s in curried)
		if not rest_ok or len(remain) != len(rest):
			raise Mismatch()
		self.serial += 1
		return MObj(self.serial, fac, deps, rest)

	def resolve(self, c: MContainer, s: int) -> MObj:
		e = c.map.get(s)
		if e is None:
			raise Mismatch()
		e.lazy_only = False
		if e.instance is None:
			e.instance = self.invoke(c, e.factory, (), True)
		return e.instance


# ---------------------------------------------------------------------------------------
# execution of one history against real + model

class Runner:
	def __init__(self, lazy: bool) -> None:
		from rogw.tranp.lang.di import DI, LazyDI
		self.u = _universe()
		self.lazy = lazy
		self.DI, self.LazyDI = DI, LazyDI
		self.real: list = []
		self.model: list[MContainer] = []
		self.m = Model()
		self.pair: dict[int, int] = {}
		self.rev: dict[int, object] = {}
		self.keep: list = []
		self.trace: list[str] = []
		self.flags = {'combine_after_resolve': False, 'post_combine_operand': False, 'post_combine_result': False}
		self.combined: set[int] = set()
		self.operands: set[int] = set()

	def new(self, defs: list) -> None:
		mc = MContainer()
		if self.lazy:
			d = {}
			for s, f, by_name in map(tuple, defs):
				if s in mc.map or not allowed(s, f):
					continue
				path = f'vf.di_universe.{self.u.SYMBOL_NAMES[s]}'
				d[path] = f'vf.di_universe.{f}' if by_name else self.u.FACTORIES[f][0]
				mc.map[s] = MEntry(f, True)
			rc = self.LazyDI.instantiate(d)
			if len(defs) % 2 == 1:
				# a second container built from the very same definitions object: it starts with the same definitions and is otherwise independent
				twin = MContainer()
				twin.map = {s_: MEntry(e.factory, True) for s_, e in mc.map.items()}
				self.real.append(self.LazyDI.instantiate(d))
				self.model.append(twin)
				self.flags['containers_from_one_definitions_object'] = True
		else:
			rc = self.DI()
			for s, f, _ in map(tuple, defs):
				if s in mc.map or not allowed(s, f):
					continue
				rc.bind(self.u.SYMBOLS[s], self.u.FACTORIES[f][0])
				mc.map[s] = MEntry(f, False)
		self.real.append(rc)
		self.model.append(mc)

	def match(self, r, m: MObj) -> str | None:
		if id(r) in self.pair:
			return None if self.pair[id(r)] == m.serial else f'real object is model #{self.pair[id(r)]}, model expects #{m.serial}'
		if m.serial in self.rev:
			return f'model expects the existing instance #{m.serial} ({m.factory}), real returned a different object {r!r}'
		if not isinstance(r, self.u.Produced):
			return f'real returned {r!r}'
		rargs, margs = tuple(r.deps) + tuple(r.rest), tuple(m.deps) + tuple(m.rest)
		if r.factory != m.factory or len(rargs) != len(margs):
			return f'real {r!r} vs model {m.factory} args={len(margs)}'
		self.pair[id(r)] = m.serial
		self.rev[m.serial] = r
		self.keep.append(r)
		for rd, md in zip(rargs, margs):
			if isinstance(md, MObj):
				err = self.match(rd, md)
				if err:
					return f'dependency: {err}'
			elif rd is not md:
				return f'passed-through argument differs: {rd!r} vs {md!r}'
		return None

	def rest_values(self, remain: list, variant: str) -> tuple[tuple, tuple, bool]:
		"""(real rest args, model rest, ok?)"""
		vals = []
		for p in remain:
			if p == 'int':
				vals.append(7)
			elif p == 'str':
				vals.append('s')
			else:
				vals.append(self.u.SYMBOLS[p]())
		ok = True
		if variant == 'short':
			if not vals:
				return tuple(vals), tuple(vals), True
			vals, ok = vals[:-1], False
		elif variant == 'long':
			vals, ok = vals + [1], False
		elif variant == 'type':
			if not vals:
				return tuple(vals), tuple(vals), True
			vals[0], ok = 3.5, False
		self.keep.extend(vals)
		return tuple(vals), tuple(vals), ok

	def step(self, op: tuple) -> tuple[str, str] | None:
		"""Apply one op; returns (sig, detail) on disagreement."""
		u = self.u
		kind = op[0]
		if kind == 'new':
			if len(self.real) >= 6:
				raise Skip()
			self.new(op[1])
			return None
		ci = op[1] % len(self.real)
		rc, mc = self.real[ci], self.model[ci]
		expect_exc: type | None = None
		got_exc: BaseException | None = None
		result = None
		mresult = None

		if kind in ('bind', 'rebind', 'resolve', 'unbind') and op[2] >= 6:
			bound = sorted(mc.map)
			op = (op[0], op[1], bound[op[2] % len(bound)] if bound else op[2] % 6) + tuple(op[3:])
		def spelled(s_: int, alias_: bool):
			# the generic symbol is addressed both as G and as G[int]
			return u.G[int] if (s_ == 5 and alias_) else u.SYMBOLS[s_]

		if kind in ('bind', 'rebind'):
			_, _, s, f = op[:4]
			alias = bool(op[4]) if len(op) > 4 else False
			if not allowed(s, f):
				raise Skip()
			if kind == 'bind' and s in mc.map:
				if mc.map[s].lazy_only:
					raise Skip()
				expect_exc = ValueError
			else:
				mc.map[s] = MEntry(f, False)
			self.trace.append(f'c{ci}.{kind}({u.SYMBOL_NAMES[s]}{"[int]" if s == 5 and alias else ""}, {f})')
			try:
				getattr(rc, kind)(spelled(s, alias), u.FACTORIES[f][0])
			except Exception as e:
				got_exc = e
		elif kind == 'unbind':
			_, _, s = op[:3]
			alias = bool(op[3]) if len(op) > 3 else False
			mc.map.pop(s, None)
			self.trace.append(f'c{ci}.unbind({u.SYMBOL_NAMES[s]}{"[int]" if s == 5 and alias else ""})')
			try:
				rc.unbind(spelled(s, alias))
			except Exception as e:
				got_exc = e
		elif kind == 'resolve':
			_, _, s, alias = op
			symbol = u.G[int] if (s == 5 and alias) else u.SYMBOLS[s]
			if s in mc.map and mc.map[s].instance is None and self.m.would_mismatch(mc, mc.map[s].factory, 0) and not self.m.first_calls_only(mc, mc.map[s].factory):
				raise Skip()
			self.trace.append(f'c{ci}.resolve({u.SYMBOL_NAMES[s]}{"[int]" if symbol is not u.SYMBOLS[s] else ""})')
			try:
				mresult = self.m.resolve(mc, s)
			except Mismatch:
				expect_exc = ValueError
			try:
				result = rc.resolve(symbol)
			except Exception as e:
				got_exc = e
		elif kind == 'invoke':
			_, _, f, variant = op
			_, remain = self.m.plan_invoke(mc, f, None, True)
			rest, mrest, ok = self.rest_values(remain, variant)
			mism = (not ok) or self.m.would_mismatch(mc, f, len(rest))
			if mism and not self.m.first_calls_only(mc, f):
				raise Skip()
			self.trace.append(f'c{ci}.invoke({f}, rest={variant}:{len(rest)})')
			try:
				mresult = self.m.invoke(mc, f, mrest, ok)
			except Mismatch:
				expect_exc = ValueError
			try:
				result = rc.invoke(u.FACTORIES[f][0], *rest)
			except Exception as e:
				got_exc = e
		elif kind == 'combine':
			_, li, ri = op
			li, ri = li % len(self.real), ri % len(self.real)
			if len(self.real) >= 8:
				raise Skip()
			ml, mr = self.model[li], self.model[ri]
			new = MContainer()
			new.map = ml.copy_entries()
			for s, e in mr.copy_entries().items():
				new.map[s] = e
			self.trace.append(f'c{len(self.real)} = c{li}.combine(c{ri})')
			if any(e.instance is not None for e in list(ml.map.values()) + list(mr.map.values())):
				self.flags['combine_after_resolve'] = True
				self.combined.add(len(self.real))
				self.operands.update([li, ri])
			try:
				res = self.real[li].combine(self.real[ri])
			except Exception as e:
				return ('combine:raises:' + type(e).__name__, f'{type(e).__name__}: {e}')
			self.real.append(res)
			self.model.append(new)
			return None
		else:
			raise core.HarnessError(f'unknown op {op}')

		if kind in ('resolve', 'rebind') and self.flags['combine_after_resolve']:
			if ci in self.combined:
				self.flags['post_combine_result'] = True
			if ci in self.operands:
				self.flags['post_combine_operand'] = True

		if expect_exc is not None:
			if got_exc is None:
				return (f'{kind}:no-error', f'model expects {expect_exc.__name__}, real returned {result!r}')
			if not isinstance(got_exc, expect_exc):
				return (f'{kind}:wrong-exception:{type(got_exc).__name__}', f'model expects {expect_exc.__name__}, real raised {type(got_exc).__name__}: {got_exc}')
			return None
		if got_exc is not None:
			return (f'{kind}:unexpected-exception:{type(got_exc).__name__}', f'real raised {type(got_exc).__name__}: {got_exc}')
		if mresult is not None:
			err = self.match(result, mresult)
			if err:
				return (f'{kind}:identity', err)
		return None

	def observe(self) -> tuple[str, str] | None:
		u = self.u
		for ci, (rc, mc) in enumerate(zip(self.real, self.model)):
			for s in range(len(u.SYMBOLS)):
				sym = u.SYMBOLS[s]
				got = rc.can_resolve(sym)
				if got != (s in mc.map):
					return ('can_resolve', f'c{ci}.can_resolve({u.SYMBOL_NAMES[s]}) = {got}, model {s in mc.map}')
			if rc.can_resolve(u.G[int]) != (5 in mc.map):
				return ('can_resolve:generic', f'c{ci}.can_resolve(G[int]) differs from model')
		return None

	def final(self) -> tuple[str, str] | None:
		"""Resolve everything that resolves cleanly, in every container, and compare identities."""
		for ci, mc in enumerate(self.model):
			for s in sorted(mc.map):
				e = mc.map[s]
				if e.instance is None and self.m.would_mismatch(mc, e.factory, 0):
					continue
				self.trace.append(f'final c{ci}.resolve({self.u.SYMBOL_NAMES[s]})')
				m = self.m.resolve(mc, s)
				try:
					r = self.real[ci].resolve(self.u.SYMBOLS[s])
				except Exception as ex:
					return (f'final:unexpected-exception:{type(ex).__name__}', f'{type(ex).__name__}: {ex}')
				err = self.match(r, m)
				if err:
					return ('final:identity', err)
		return None


def run_history(case) -> tuple[list[tuple[str, str]], dict, list[str]]:
	lazy, defs, ops = case
	r = Runner(bool(lazy))
	r.new([tuple(d) for d in defs])
	applied = 0
	for op0 in ops:
		op0 = tuple(op0)
		steps = [op0]
		if op0[0] == 'invoke_unbind_invoke':
			ci = op0[1] % len(r.real)
			curried, _ = r.m.plan_invoke(r.model[ci], op0[2], None, True)
			if not curried:
				continue
			steps = [('invoke', op0[1], op0[2], 'ok'), ('unbind', op0[1], curried[op0[3] % len(curried)], False), ('invoke', op0[1], op0[2], 'ok')]
			r.flags['invoke_after_unbind_of_dependency'] = True
		for op in steps:
			try:
				bad = r.step(op)
			except Skip:
				break
			applied += 1
			if bad is None:
				bad = r.observe()
			if bad is not None:
				return [(bad[0], f'{bad[1]}\n  history ({"LazyDI" if lazy else "DI"}): ' + '; '.join(r.trace))], r.flags, r.trace
	bad = r.final() or r.observe()
	if bad is not None:
		return [(bad[0], f'{bad[1]}\n  history ({"LazyDI" if lazy else "DI"}): ' + '; '.join(r.trace))], r.flags, r.trace
	return [], r.flags, r.trace


def _plain(case):
	lazy, defs, ops = case
	import json
	return json.loads(json.dumps([bool(lazy), defs, ops]))


def shard(ctx: core.Ctx) -> None:
	def body(case) -> None:
		fails, flags, trace = run_history(case)
		nontrivial = all(flags.values())
		labels = ['lazy' if case[0] else 'plain'] + [k for k, v in flags.items() if v]
		ctx.case('; '.join(trace), nontrivial, sample={'container': 'LazyDI' if case[0] else 'DI', 'history': trace[:60]}, labels=labels)
		for sig, detail in fails:
			ctx.fail(('lazy:' if case[0] else 'plain:') + sig, detail, _plain(case))

	core.drive(ctx, ops_strategy(), body, total=ctx.budget['examples'], chunk=250)


def _load(case):
	lazy, defs, ops = case
	return (lazy, [tuple(d) for d in defs], [tuple(op) for op in ops])


def replay(case) -> list[tuple[str, str]]:
	fails, _, _ = run_history(_load(case))
	lazy = case[0]
	return [(('lazy:' if lazy else 'plain:') + s, d) for s, d in fails]


def shrink(failure: dict) -> dict | None:
	sig = failure['sig']

	def pred(case) -> bool:
		fails, _, _ = run_history(case)
		return any((('lazy:' if case[0] else 'plain:') + s) == sig for s, _ in fails)

	found = core.minimize(ops_strategy(), pred, seed=0, max_examples=4000)
	if found is None:
		return None
	case = _plain(found)
	import json
	if len(json.dumps(case)) >= failure['size']:
		return None
	fails, _, _ = run_history(found)
	return dict(failure, case=case, detail=fails[0][1])
