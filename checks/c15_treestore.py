"""C15 — the stored form of a syntax tree restores an identical tree (round trip)."""
import io
import json
import os

from hypothesis import strategies as st

from vf import core

PROPERTY = 'C15'
LEVEL = 'exploration'
RULE = ('lark trees of generated (G2, biased to empty slots: functions without parameters, bare return, classes without bases, empty brackets, one-line blocks, missing optional type/default) '
	'and real (G3) modules; T\' = loads(json(dumps(T))) and the same through EntryStored.save/load; recursive field-by-field comparison of the EntryOfLark views (name, has_child, is_terminal, '
	'is_empty, value, source_map, child order), equal full_pathfy key lists, and node trees built from T and T\' on two fresh containers agree on class, tokens and source_map per path and on the '
	'ErrorRender quotation of sampled nodes; non-trivial = tree contains an empty slot (None) and a tree with empty position meta; distinct by source hash')
ASSUMPTIONS = ['lark.Tree / lark.Token objects are compared through the EntryOfLark view, the only interface the rest of tranp uses']
BUDGET = {
	'quick': {'seconds': 40, 'modules': 600, 'shards': 16},
	'thorough': {'seconds': 560, 'modules': 40000, 'shards': 16},
}


def compare(a, b, path: str = '') -> str | None:
	"""First difference between two Entry views, or None."""
	name = str(a.name)
	here = f'{path}.{name}' if path else name
	for field in ('name', 'has_child', 'is_terminal', 'is_empty', 'value', 'source_map'):
		va, vb = getattr(a, field), getattr(b, field)
		if field == 'source_map':
			va = (tuple(va['begin']), tuple(va['end']))
			vb = (tuple(vb['begin']), tuple(vb['end']))
		if str(va) != str(vb) if field == 'name' else va != vb:
			return f'{here}: {field} {va!r} != {vb!r}'
	ca, cb = a.children, b.children
	if len(ca) != len(cb):
		return f'{here}: {len(ca)} children != {len(cb)}'
	for i, (x, y) in enumerate(zip(ca, cb)):
		d = compare(x, y, f'{here}[{i}]')
		if d:
			return d
	return None


def shape(entry) -> dict:
	info = {'none': 0, 'empty_meta': 0, 'entries': 0}

	def walk(e) -> None:
		info['entries'] += 1
		if e.is_empty:
			info['none'] += 1
		elif e.has_child:
			sm = e.source_map
			if sm['begin'] == (0, 0) and sm['end'] == (0, 0):
				info['empty_meta'] += 1
			for c in e.children:
				walk(c)

	walk(entry)
	return info


def judge(app, source: str, module_file: str | None = None) -> tuple[list[tuple[str, str]], dict]:
	from rogw.tranp.errors import Errors
	from rogw.tranp.implements.syntax.lark.entry import EntryOfLark, Serialization
	from rogw.tranp.implements.syntax.lark.parser import EntryStored
	from rogw.tranp.syntax.ast.finder import ASTFinder
	from rogw.tranp.view.error_render import ErrorRender
	from vf import sut

	fails: list[tuple[str, str]] = []
	try:
		entry = app.parse(source)
	except Exception:
		return [('OUT', 'lark')], {}
	info = shape(entry)

	def guarded(fn, what: str):
		try:
			return fn()
		except Exception as e:
			import traceback
			tb = [f for f in traceback.extract_tb(e.__traceback__) if '/rogw/' in f.filename]
			if not tb:
				raise
			fails.append((f'{what}:raises:{type(e).__name__}@{tb[-1].name}', f'{type(e).__name__}: {e}'))
			return None

	data = guarded(lambda: Serialization.dumps(entry.source), 'dumps')
	if data is None:
		return fails, info
	restored = guarded(lambda: EntryOfLark(Serialization.loads(json.loads(json.dumps(data)))), 'loads')
	if restored is not None:
		d = compare(entry, restored)
		if d:
			fails.append(('roundtrip:' + d.split(': ')[1].split(' ')[0], d))

	def through_stream():
		buf = io.BytesIO()
		EntryStored(entry).save(buf)
		buf.seek(0)
		return EntryStored.load(buf).entry

	restored2 = guarded(through_stream, 'stored')
	if restored2 is not None:
		d = compare(entry, restored2)
		if d:
			fails.append(('stored:' + d.split(': ')[1].split(' ')[0], d))
	if fails or restored2 is None:
		return fails, info
	# idempotence of the encoding
	if Serialization.dumps(restored2.source) != data:
		fails.append(('redump:differs', 'dumps(loads(dumps(T))) != dumps(T)'))
	ka = [str(k) for k in ASTFinder().full_pathfy(entry).keys()]
	kb = [str(k) for k in ASTFinder().full_pathfy(restored2).keys()]
	if ka != kb:
		fails.append(('paths:differ', f'{len(ka)} vs {len(kb)} paths'))
		return fails, info
	ep_a = app.nodes_for(entry)
	ep_b = app.nodes_for(restored2)
	na, nb = sut.nodes_of(ep_a), sut.nodes_of(ep_b)
	step = max(1, len(ka) // 200)
	for i, p in enumerate(ka):
		try:
			x, y = na.by(p), nb.by(p)
		except Errors.Error as e:
			fails.append((f'nodes:raises:{type(e).__name__}', p))
			break
		if type(x) is not type(y):
			fails.append(('nodes:class', f'{p}: {type(x).__name__} vs {type(y).__name__}'))
			break
		if i % step == 0:
			if x.tokens != y.tokens:
				fails.append(('nodes:tokens', f'{p}: {x.tokens!r} vs {y.tokens!r}'))
				break
			if x.source_map != y.source_map:
				fails.append(('nodes:source_map', f'{p}: {x.source_map} vs {y.source_map}'))
				break
			if module_file and i % (step * 8) == 0:
				qa, qb = quotation(x), quotation(y)
				if qa != qb:
					fails.append(('nodes:quotation', f'{p}: {qa!r} vs {qb!r}'))
					break
	return fails, info


def quotation(node) -> list[str]:
	from rogw.tranp.errors import Errors
	from rogw.tranp.view.error_render import ErrorRender
	try:
		raise Errors.Semantics(node)
	except Errors.Semantics as e:
		try:
			text = str(ErrorRender(e))
		except Exception as ex:
			return ['RENDER-RAISES ' + type(ex).__name__]
	lines = text.split('\n')
	k = next((i for i, l in enumerate(lines) if l.startswith('via Node:')), None)
	return lines[k:k + 4] if k is not None else []


_app = None


def app(scratch: str):
	global _app
	if _app is None:
		from vf import sut
		_app = sut.TreeApp(scratch)
		os.chdir(scratch)  # ErrorRender quotes '<module path>.py' relative to the cwd
	return _app


@st.composite
def cases(draw):
	from vf import syngen
	rnd = draw(st.randoms(use_true_random=False))
	src, stats = syngen.gen_module(rnd, rnd.choice(['mixed', 'mixed', 'mixed', 'expr']))
	if rnd.random() < 0.2:
		src = src.replace('\n', '\r\n')  # a CRLF checkout: the line breaks inside multi-line string tokens are part of the token value
		stats = dict(stats, crlf=True)
	if rnd.random() < 0.25:
		# characters that str.splitlines() takes for line breaks but the lexer does not (form feed, vertical tab, FS/GS/RS, NEL, U+2028/9),
		# inside comment and string tokens: they are ordinary characters of the token, its span ends on the same line
		src, n = exotic_separators(rnd, src)
		if n:
			stats = dict(stats, exotic=True)
	return {'source': src, 'stats': stats}


def exotic_separators(rnd, src: str) -> tuple[str, int]:
	import io
	import tokenize
	try:
		toks = [t for t in tokenize.generate_tokens(io.StringIO(src).readline) if t.type in (tokenize.COMMENT, tokenize.STRING) and t.start[0] == t.end[0]]
	except (tokenize.TokenError, SyntaxError, IndentationError):
		return src, 0
	toks = [t for t in toks if t.type == tokenize.COMMENT or (t.string[:1] in '"\'' and not t.string.startswith(('"""', "'''")) and len(t.string) >= 2)]
	if not toks:
		return src, 0
	lines = src.split('\n')
	chosen = rnd.sample(toks, min(len(toks), rnd.randint(1, 3)))
	for t in sorted(chosen, key=lambda t: t.start, reverse=True):
		row, col = t.start[0] - 1, t.start[1] + 1
		if row < len(lines) and lines[row][t.start[1]:t.start[1] + 1] == t.string[:1]:
			ch = rnd.choice(['\f', '\v', '\x1c', '\x1d', '\x1e', '\x85', '\u2028', '\u2029'])
			lines[row] = lines[row][:col] + rnd.choice(['', 'a ']) + ch + rnd.choice(['', ' b']) + lines[row][col:]
	return '\n'.join(lines), len(chosen)


def run_case(scratch: str, source: str) -> tuple[list[tuple[str, str]], dict]:
	a = app(scratch)
	with open(os.path.join(scratch, '__main__.py'), 'w', encoding='utf-8', newline='') as f:  # so that the quotation of '__main__' nodes can be compared
		f.write(source if source.endswith('\n') else source + '\n')
	try:
		return judge(a, source, '__main__.py')
	finally:
		os.unlink(os.path.join(scratch, '__main__.py'))


def shard(ctx: core.Ctx) -> None:
	from vf import corpus, env

	for path in corpus.shard_files(ctx.tier, ctx.shard, ctx.nshards):
		rel = os.path.relpath(path, env.REPO)
		fails, info = judge(app(ctx.scratch), corpus.read(path))
		if fails and fails[0][0] == 'OUT':
			ctx.discard('g3-rejected-by-lark')
			continue
		ctx.case(rel, info['none'] > 0 and info['empty_meta'] > 0, labels=['g3-module'])
		for sig, detail in fails:
			ctx.fail(sig, f'{rel}: {detail}', {'kind': 'file', 'path': rel})
		if ctx.out_of_time():
			break

	def body(case: dict) -> None:
		fails, info = run_case(ctx.scratch, case['source'])
		if fails and fails[0][0] == 'OUT':
			ctx.discard('rejected-by-lark')
			ctx.evaluations += 1
			return
		ctx.case(case['source'], info['none'] > 0 and info['empty_meta'] > 0, sample={'source': case['source'], 'entries': info['entries'], 'empty_slots': info['none'], 'trees_with_empty_meta': info['empty_meta']} if len(case['source']) < 300 else None,
			labels=['g2-module'] + (['crlf'] if case['stats'].get('crlf') else []) + (['exotic-separators'] if case['stats'].get('exotic') else []) + (['has-empty-slot'] if info['none'] else []) + (['has-empty-meta'] if info['empty_meta'] else []))
		for sig, detail in fails:
			ctx.fail(sig, detail + f'\n  source={case["source"]!r}', {'kind': 'module', 'source': case['source']})

	core.drive(ctx, cases(), body, total=ctx.budget['modules'], chunk=50)


def replay(case: dict) -> list[tuple[str, str]]:
	from vf import corpus, env
	global _app
	cwd = os.getcwd()
	with env.Scratch('c15r') as s:
		_app = None
		try:
			if case['kind'] == 'file':
				fails, _ = judge(app(s.path), corpus.read(os.path.join(env.REPO, case['path'])))
			else:
				fails, _ = run_case(s.path, case['source'])
			return [f for f in fails if f[0] != 'OUT']
		finally:
			_app = None
			os.chdir(cwd)
