"""C08 — consistent renaming of user identifiers commutes with transpilation (metamorphic)."""
import io
import keyword
import re
import tokenize

from hypothesis import strategies as st

from vf import core

PROPERTY = 'C08'
LEVEL = 'exploration'
RULE = ('G1 programs whose user identifiers come from a neutral vocabulary; an injective renaming r into adversarial fresh names (prefixes/suffixes of each other, names containing "__", names equal to grammar tags, '
	'path fragments and template variable names, names differing only in case, length 1 and 40, orderings that invert the alphabetical order); oracle: transpile(r(P)) == r^(transpile(P)) with r applied to the '
	'source by NAME token and r^ to the output by identifier token outside string literals, checked in both directions; non-trivial = r contains two names in prefix relation or with "__" and the program has a nested scope (method/closure/lambda/comprehension); distinct by (source, r)')
ASSUMPTIONS = [
	'fresh names are no Python keywords/builtins, no names of the library stubs, no tranp reserved words (self, cls, cvar verbs, Embed, enum name/value), no C++ keywords; the number of leading underscores is preserved (it selects the C++ accessor on purpose)',
	'constructs with a confirmed C01 defect are excluded by construction (a rejected program cannot be compared)',
]
BUDGET = {
	'quick': {'seconds': 50, 'programs': 60, 'shards': 16},
	'thorough': {'seconds': 560, 'programs': 4000, 'shards': 16},
}

RESERVED = set(keyword.kwlist) | {'self', 'cls', 'super', 'int', 'str', 'float', 'bool', 'list', 'dict', 'tuple', 'len', 'range', 'enumerate', 'Enum', 'Callable', 'property', 'classmethod',
	'RuntimeError', 'Exception', 'value', 'name', 'items', 'keys', 'values', 'get', 'append', 'insert', 'pop', 'extend', 'clear', 'copy', 'startswith', 'endswith', 'find', '__init__', 'enum', 'collections', 'abc',
	'print', 'type', 'object', 'isinstance', 'Generic', 'TypeVar', 'ClassVar', 'StopIteration', 'typing', 'rfind', 'reverse', 'sort', 'index', 'count', 'remove', 'update', 'upper', 'lower', 'split', 'join', 'replace', 'strip', 'lstrip', 'rstrip', 'format', 'min', 'max', 'abs', 'id', 'iter', 'next', 'hash', 'cast', 'Any', 'Self', 'Union', 'None', 'True', 'False'}
CPP_WORDS = {'auto', 'int', 'bool', 'float', 'double', 'char', 'void', 'class', 'struct', 'public', 'private', 'protected', 'static', 'const', 'this', 'return', 'if', 'else', 'for', 'while', 'break', 'continue', 'try',
	'catch', 'throw', 'new', 'delete', 'namespace', 'using', 'template', 'typename', 'std', 'string', 'vector', 'map', 'tuple', 'function', 'mutable', 'true', 'false', 'nullptr', 'enum', 'switch', 'case', 'default',
	'do', 'operator', 'virtual', 'override', 'inline', 'size', 'begin', 'end', 'push_back', 'contains', 'find', 'format', 'runtime_error', 'exception', 'get', 'first', 'second', 'pragma', 'once', 'include', 'tranp',
	'meta', 'version', 'module', 'hash', 'path', 'transpiler', 'dummy', 'rogw', 'implements', 'cpp', 'py', 'Py', 'Cpp', 'substr', 'starts_with', 'ends_with', 'erase', 'insert', 'clear', 'pop_back', 'back', 'at', 'to_string', 'stoi', 'stof',
	'long', 'short', 'unsigned', 'signed', 'and', 'or', 'not', 'xor', 'union', 'register', 'goto', 'friend', 'explicit', 'export', 'extern', 'typedef', 'sizeof', 'volatile', 'asm', 'main', 'e', 'it', 'index', 'ret'}
TRANP_WORDS = {'on', 'raw', 'ref', 'addr', 'const', 'move', 'down', 'as_a', 'new', 'empty', 'hex', 'copy', 'Embed', 'CP', 'CSP', 'CUP', 'CRef', 'CW', 'T', 'make'}
POOL = ['a', 'aa', 'a_a', 'a__a', 'aa_', 'ab', 'abc', 'abcd', 'b', 'ba', 'x', 'xx', 'x__y', 'x_y', 'xy', 'block', 'function_def_raw', 'class_def_raw', 'var', 'funccall', 'getattr', 'symbol', 'receiver', 'arguments',
	'statements', 'elements', 'Alpha', 'alpha', 'ALPHA', 'n', 'nn', 'n1', 'n10', 'n2', 'k9', 'k10', 'zz', 'zzz', 'z', 'p__q', 'file_input', 'assign', 'A', 'Aa', 'AA', 'B', 'Ab',
	'very_long_identifier_name_with_forty_chars_', 'i', 'j', 'ii', 'tmp', 'tmp_', 'tmp__1', 'o', 'O0', 'l', 'l1',
	# fresh names that merely *contain* a name the transpiler treats specially (library classes, decorators, receivers, C++ words)
	'Enumerable', 'MyEnum2', 'T_EnumItem', 'selfish', 'clsx', 'Embedded', 'listing', 'dictx', 'strx', 'intx', 'Exceptional', 'superb', 'property_2', 'valuex',
	'namex', 'Genericx', 'TypeVarx', 'RuntimeErrorx', 'lenx', 'rangex', 'classmethodx', 'Callablex', 'thisx', 'autox', 'constx', 'stdx', 'vector_', 'mainx', 'initx']


def user_names(source: str) -> list[str]:
	names = []
	for tok in tokenize.generate_tokens(io.StringIO(source).readline):
		if tok.type == tokenize.NAME and tok.string not in RESERVED and tok.string not in names:
			names.append(tok.string)
	return names


def rename_source(source: str, r: dict) -> str:
	out = []
	last = (1, 0)
	lines = source.splitlines(keepends=True)
	result = []
	for tok in tokenize.generate_tokens(io.StringIO(source).readline):
		result.append(tok)
	# rebuild by positions (NAME tokens only change their text)
	pieces: list[str] = []
	pos = 0
	offsets = [0]
	for l in lines:
		offsets.append(offsets[-1] + len(l))
	for tok in result:
		quoted = tok.type == tokenize.STRING and tok.string[1:-1] in r and tok.string[0] == tok.string[-1] and tok.string[0] in '\'"'  # quoted annotation 'C0'
		# quoted composite annotation 'G0[L0]' / 'dict[str, G0[L0]]': the identifiers inside are renamed
		composite = tok.type == tokenize.STRING and not quoted and tok.string[0] == tok.string[-1] and tok.string[0] in '\'"' and '[' in tok.string \
			and re.fullmatch(r'[A-Za-z_][\w\[\], |.]*\]', tok.string[1:-1]) is not None
		if (tok.type == tokenize.NAME and tok.string in r) or quoted or composite:
			start = offsets[tok.start[0] - 1] + tok.start[1]
			end = offsets[tok.end[0] - 1] + tok.end[1]
			pieces.append(source[pos:start])
			if composite:
				pieces.append(tok.string[0] + re.sub(r'[A-Za-z_]\w*', lambda m: r.get(m.group(0), m.group(0)), tok.string[1:-1]) + tok.string[-1])
			else:
				pieces.append(tok.string[0] + r[tok.string[1:-1]] + tok.string[-1] if quoted else r[tok.string])
			pos = end
	pieces.append(source[pos:])
	return ''.join(pieces)


CPP_TOKEN = re.compile(r'"(?:[^"\\]|\\.)*"|\'(?:[^\'\\]|\\.)*\'|[A-Za-z_]\w*|.', re.S)


def rename_cpp(text: str, r: dict) -> str:
	return ''.join(r.get(m, m) if (m[0].isalpha() or m[0] == '_') else m for m in CPP_TOKEN.findall(text))


@st.composite
def cases(draw, exclude: frozenset = frozenset()):
	from vf import pygen
	rnd = draw(st.randoms(use_true_random=False))
	prog = pygen.gen_program(rnd, set(exclude), size=rnd.randint(1, 2))
	names = user_names(prog['source'])
	pool = [n for n in POOL if n not in RESERVED and n not in CPP_WORDS and n not in TRANP_WORDS and n not in names]
	rnd.shuffle(pool)
	r = {}
	k = rnd.randint(max(1, len(names) // 2), len(names))
	chosen = rnd.sample(names, min(k, len(pool), len(names)))
	for old, new in zip(chosen, pool):
		r[old] = old[:len(old) - len(old.lstrip('_'))] + new.lstrip('_')  # the leading underscores select the C++ accessor on purpose: kept
	# an enclosing class and its nested class get names in prefix relation (the qualified name Outer::Inner is assembled from both)
	inner = re.search(r'(?m)^\tclass (I(\d+)):', prog['source'])
	if inner and rnd.random() < 0.7:
		outer_new, inner_new = rnd.choice([('Tree', 'TreeNode'), ('Nod', 'Node'), ('Graph', 'Graph__Node'), ('Ab', 'Abc'), ('Q', 'QQ')])
		if not ({outer_new, inner_new} & (set(names) | set(r.values()))):
			r[f'C{inner.group(2)}'] = outer_new
			r[inner.group(1)] = inner_new
	# two members of one enum get names in suffix relation (M0 -> X, M1 -> AX): a lookup of a member among its siblings must be by the whole name
	members = re.findall(r'(?m)^\t(M\d+) = ', prog['source'])
	if len(members) >= 2 and rnd.random() < 0.5:
		short, long_ = rnd.choice([('X', 'AX'), ('red', 'dark_red'), ('k9', 'kk9'), ('Q', 'Q_Q')])
		if not ({short, long_} & (set(names) | set(r.values()))):
			first, second = rnd.sample(sorted(set(members)), 2) if len(set(members)) >= 2 else (members[0], members[0])
			if first != second:
				lo, hi = sorted([first, second], key=lambda m: int(m[1:]))
				r[lo], r[hi] = short, long_   # the earlier declared member gets the suffix
	return {'source': prog['source'], 'r': r, 'tags': prog['tags']}


_app = None


def app(scratch: str):
	global _app
	if _app is None:
		from vf import sut
		_app = sut.MemApp(scratch)
	return _app


def judge(scratch: str, case: dict) -> tuple[list[tuple[str, str]], dict]:
	from rogw.tranp.errors import Errors
	a = app(scratch)
	src, r = case['source'], case['r']
	info: dict = {}
	try:
		out_p = a.transpile_main(src)
	except Errors.Error as e:
		return [('OUT', f'original-rejected:{type(e).__name__}')], info
	renamed = rename_source(src, r)
	try:
		compile(renamed, '<renamed>', 'exec')
	except SyntaxError:
		raise core.HarnessError(f'renaming produced invalid Python: {r}')
	try:
		out_r = a.transpile_main(renamed)
	except Errors.Error as e:
		cause = e.__cause__
		return [(f'renamed-rejected:{type(e).__name__}:{type(cause).__name__ if cause else ""}', f'{type(e).__name__}: {str(e)[:300]}\n  r={r}')], info
	expect = rename_cpp(out_p, r)
	fails = []
	if expect != out_r:
		la, lb = expect.split('\n'), out_r.split('\n')
		k = next((i for i, (x, y) in enumerate(zip(la, lb)) if x != y), min(len(la), len(lb)))
		fails.append(('output-differs', f'line {k + 1}: expected {la[k] if k < len(la) else "<eof>"!r}, got {lb[k] if k < len(lb) else "<eof>"!r}\n  r={r}'))
	else:
		inv = {v: k for k, v in r.items()}
		if rename_cpp(out_r, inv) != out_p:
			fails.append(('inverse-differs', f'r^-1(transpile(r(P))) != transpile(P)\n  r={r}'))
	news = list(r.values())
	info['adversarial'] = any(x != y and (x.startswith(y) or '__' in x) for x in news for y in news) or any('__' in x for x in news)
	return fails, info


def shard(ctx: core.Ctx) -> None:
	exclude = core.frontend_exclusions() | frozenset(ctx.excluded) | frozenset({'optional', 'iterator-class'})  # Optional values are typed but not transpiled (no None on the C++ side)

	def body(case: dict) -> None:
		fails, info = judge(ctx.scratch, case)
		if fails and fails[0][0] == 'OUT':
			ctx.discard(fails[0][1])
			ctx.evaluations += 1
			return
		nested = bool(set(case['tags']) & {'closure', 'lambda', 'list-comp', 'dict-comp', 'method-call', 'property-def', 'classmethod-def', 'inherit'})
		ctx.case([case['source'], sorted(case['r'].items())], info.get('adversarial', False) and nested, sample={'source': case['source'], 'renaming': case['r']} if len(case['source']) < 1200 else None,
			labels=['program'] + (['adversarial-names'] if info.get('adversarial') else []) + (['nested-scope'] if nested else []))
		for sig, detail in fails:
			ctx.fail(sig, detail + '\n' + case['source'], {'source': case['source'], 'r': case['r'], 'tags': case['tags']})

	core.drive(ctx, cases(exclude), body, total=ctx.budget['programs'], chunk=20)


def replay(case: dict) -> list[tuple[str, str]]:
	from vf import env
	global _app
	with env.Scratch('c08r') as s:
		_app = None
		try:
			fails, _ = judge(s.path, case)
			return [f for f in fails if f[0] != 'OUT']
		finally:
			_app = None


def shrink(failure: dict) -> dict | None:
	"""Minimise the renaming: drop pairs while the failure stays."""
	from vf import env
	global _app
	case = failure['case']
	sig = failure['sig']
	with env.Scratch('c08s') as s:
		_app = None
		try:
			r = dict(case['r'])
			changed = True
			while changed and len(r) > 1:
				changed = False
				for k in list(r):
					cand = {a: b for a, b in r.items() if a != k}
					fails, _ = judge(s.path, dict(case, r=cand))
					if any(x == sig for x, _ in fails):
						r, changed = cand, True
						break
			fails, _ = judge(s.path, dict(case, r=r))
			detail = [d for x, d in fails if x == sig]
			if not detail:
				return None
			return dict(failure, case=dict(case, r=r), detail=detail[0] + '\n' + case['source'])
		finally:
			_app = None
