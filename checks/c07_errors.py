"""C07 — failures are always reported as tranp errors, never internal crashes."""
import ast
import contextlib
import io
import os
import signal
import traceback

from hypothesis import strategies as st

from vf import core

PROPERTY = 'C07'
LEVEL = 'exploration'
RULE = ('(a) token/byte-level mutations (delete, duplicate, swap, insert a token of the grammar alphabet, re-indent a line, unbalance a bracket, truncate) of generated (G2) sources and real (G3) files, '
	'(a2) files that are not valid UTF-8 (on-disk entry point only; must be Errors.Syntax), (b) token soups over the terminal alphabet of grammar.lark, (b2) very deep inputs (20-1000 levels of brackets, calls, blocks, prefix operators, attribute/subscript chains; flat inputs of the same size as controls), (c) well-formed but ill-typed programs (G2 without the node-model restrictions, undefined names/attributes, wrong arity ...); '
	'each fed through both entry points (in-memory module, on-disk module in a scratch project) and the stages Modules.load -> ITranspiler.transpile; outcome must be ok or Errors.Error, '
	'text rejected by CPython and by lark must be Errors.Syntax on both entry points, str(ErrorRender(e)) must return; plus the Interactive loop with a scripted tty (bad, bad, good). '
	'Failures are bucketed by (exception type, innermost rogw frame). non-trivial = the input reaches beyond the lexer (parses and fails later, or the parse error is past the first statement); distinct by (outcome bucket, source hash)')
ASSUMPTIONS = [
	'termination is only observed: a case that exceeds the per-case watchdog (20 s) is reported as inconclusive, never as a violation',
	'the bucket (exception type @ file:function of the innermost rogw frame) is the unit of a finding',
]
BUDGET = {
	'quick': {'seconds': 45, 'cases': 700, 'shards': 16},
	'thorough': {'seconds': 560, 'cases': 40000, 'shards': 16},
}

ALPHABET = ['def', 'class', 'if', 'else', 'elif', 'for', 'in', 'while', 'return', 'lambda', 'not', 'and', 'or', 'is', 'try', 'except', 'as', 'with', 'import', 'from', 'pass', 'raise', 'yield', 'assert',
	'del', 'x', 'self', 'A', 'f', '1', '2.5', '"s"', "'t'", '(', ')', '[', ']', '{', '}', ',', ':', '.', '=', '+', '-', '*', '/', '%', '==', '<', '->', '@', '**', '...', '+=', '|', '&', '~', '\n', '\n\t', '\n\t\t', '\n  ', ' ', '#c',
	# literal and operator forms of Python that the shipped grammar tokenises but the node model may not know (binary / octal / imaginary numbers,
	# byte / raw / f-strings, matrix-multiply, floor division, walrus, star expressions, ellipsis, None / True / False as targets)
	'0b1010', '0o17', '1j', '1_000', '1e5', '0xFF', "b'x'", "r'\\d'", "f'{x}'", '@=', '//', ':=', '*x', '**x', 'None', 'True', 'global', 'nonlocal', 'async', 'await', 'match', 'case', 'type',
	'\n0b1\n', '\n1j\n', '\n0o7\n']


class Timeout(Exception):
	pass


def watchdog(seconds: float):
	return core.watchdog(seconds, Timeout)


def mutate(rnd, src: str) -> tuple[str, str]:
	import re
	toks = re.findall(r'\s+|[A-Za-z_]\w*|\d+\.?\d*|"""[\s\S]*?"""|"[^"\n]*"|\'[^\'\n]*\'|\*\*|->|[-+*/%&|^<>=!]=|<<|>>|\.\.\.|.', src)
	if not toks:
		return src, 'none'
	kind = rnd.choice(['delete', 'duplicate', 'swap', 'insert', 'indent', 'bracket', 'truncate', 'replace', 'none'])
	i = rnd.randint(0, len(toks) - 1)
	if kind == 'delete':
		del toks[i]
	elif kind == 'duplicate':
		toks.insert(i, toks[i])
	elif kind == 'swap' and len(toks) > 1:
		j = min(len(toks) - 1, i + 1)
		toks[i], toks[j] = toks[j], toks[i]
	elif kind == 'insert':
		toks.insert(i, rnd.choice(ALPHABET))
	elif kind == 'replace':
		toks[i] = rnd.choice(ALPHABET)
	elif kind == 'indent':
		lines = ''.join(toks).split('\n')
		k = rnd.randint(0, len(lines) - 1)
		lines[k] = rnd.choice(['\t', '  ', '', ' ']) + lines[k].lstrip() if rnd.random() < 0.5 else rnd.choice(['\t', '    ']) + lines[k]
		return '\n'.join(lines), kind
	elif kind == 'bracket':
		toks.insert(i, rnd.choice('([{)]}'))
	elif kind == 'truncate':
		toks = toks[:i]
	return ''.join(toks), kind


# very deep inputs: n levels of brackets, calls, blocks, unary operators or postfix chains (and, as controls, n flat items)
DEEP_SHAPES = {
	'parens': lambda n: 'x = ' + '(' * n + '1' + ')' * n + '\n',
	'lists': lambda n: 'x = ' + '[' * n + '1' + ']' * n + '\n',
	'calls': lambda n: 'x = ' + 'f(' * n + '1' + ')' * n + '\n',
	'attrs': lambda n: 'x = a' + '.b' * n + '\n',
	'index': lambda n: 'x = a' + '[0]' * n + '\n',
	'unary': lambda n: 'x = ' + '-' * n + '1\n',
	'not': lambda n: 'x = ' + 'not ' * n + 'a\n',
	'ifs': lambda n: ''.join('\t' * i + 'if x:\n' for i in range(n)) + '\t' * n + 'pass\n',
	'flat-sum': lambda n: 'x = ' + ' + '.join(['1'] * n) + '\n',
	'flat-elifs': lambda n: 'if x:\n\tpass\n' + 'elif x:\n\tpass\n' * n,
	'flat-statements': lambda n: 'x = 1\n' * n,
}
DEEP_LISTED_FROM = 150   # C07-K-deep-nesting: from here on a RecursionError of the unchanged code is the listed finding


def nesting_measure(src: str) -> int:
	"""Levels of nesting of a text: bracket depth, block depth, longest run of prefix operators, longest postfix chain."""
	import re
	depth = deepest = 0
	for ch in src:
		if ch in '([{':
			depth += 1
			deepest = max(deepest, depth)
		elif ch in ')]}':
			depth = max(0, depth - 1)
	indent = max((len(line) - len(line.lstrip('\t ')) for line in src.split('\n')), default=0)
	prefix = max((len(re.findall(r'not\b|[-+~]', m.group(0))) for m in re.finditer(r'(?:(?:not\b|[-+~])\s*)+', src)), default=0)
	postfix = max((len(re.findall(r'\.\s*\w+|\[[^\[\]]*\]|\([^()]*\)', m.group(0))) for m in re.finditer(r'(?:\.\s*\w+|\[[^\[\]]*\]|\([^()]*\))+', src)), default=0)
	return max(deepest, indent, prefix, postfix)


core.CASE_PREDICATES['C07-K-deep-nesting'] = lambda case: nesting_measure(case['source']) >= DEEP_LISTED_FROM


@st.composite
def cases(draw, exclude: frozenset = frozenset()):
	from vf import syngen
	rnd = draw(st.randoms(use_true_random=False))
	if rnd.randint(1, 40) <= 3:  # (floats drawn through Hypothesis are biased towards 0: an integer draw keeps the share at a few per cent)
		shape = rnd.choice(sorted(DEEP_SHAPES))
		top = 120 if 'deep-nesting' in exclude and not shape.startswith('flat') else 1000   # the listed finding is kept out by construction
		n = int(20 * (top / 20) ** rnd.random())
		return {'source': DEEP_SHAPES[shape](n), 'kind': f'deep:{shape}'}
	if rnd.randint(1, 40) <= 2:
		# a file that is not valid UTF-8 (a Latin-1 letter, a truncated multi-byte sequence, a stray continuation byte) at a random place of a
		# valid module: raw bytes travel through the case as lone surrogates (surrogateescape)
		src, _ = syngen.gen_module(rnd, 'mixed', friendly=True)
		at = rnd.randint(0, len(src))
		return {'source': src[:at] + rnd.choice(['\udce9', '\udcff', '\udcc3', '\udc80', '\udce2\udc82', '# \udce9\n']) + src[at:], 'kind': 'invalid-utf8'}
	c = rnd.randint(0, 9)
	if c <= 5:
		src, _ = syngen.gen_module(rnd, rnd.choice(['mixed', 'mixed', 'expr']), friendly=rnd.random() < 0.5)
		kinds = []
		for _ in range(rnd.randint(1, 3)):
			src, k = mutate(rnd, src)
			kinds.append(k)
		return {'source': src, 'kind': 'mutant:' + '+'.join(kinds)}
	if c <= 7:
		src, _ = syngen.gen_module(rnd, rnd.choice(['mixed', 'mixed', 'expr']), friendly=rnd.random() < 0.7)
		return {'source': src, 'kind': 'ill-typed'}
	if rnd.random() < 0.25:
		# well-formed but ill-typed: declarations whose inferred type depends on itself (lazy type resolution recurses), at module level,
		# in a function, in a class body and as enum members
		a, b = rnd.sample(['a', 'b', 'x', 'total', 'v1'], 2)
		shape = rnd.choice([f'{a} = {a}\n', f'{a} = {b}\n{b} = {a}\n', f'{a} = [{a}]\n', f'{a} = lambda: {a}\n', f'{a} = {b} + 1\n{b} = {a} * 2\n',
			f'def f() -> None:\n\t{a} = {a}\n', f'def f() -> None:\n\t{a} = {b}\n\t{b} = {a}\n', f'from enum import Enum\nclass E(Enum):\n\tA = A\n',
			f'class K:\n\t{a}: int = {a}\n', f'{a} = {{"k": {a}}}\n', f'{a} = ({a}, 1)\n', f'{a} = {a}.{b}\n', f'{a} = {a}()\n', f'{a} = {a}[0]\n'])
		return {'source': shape + rnd.choice(['', 'y: int = 1\n']), 'kind': 'cyclic-declaration'}
	if rnd.random() < 0.2:
		# type annotations with the wrong number of arguments (well-formed Python, ill-formed for the node model), at any depth
		ann = rnd.choice(['dict[str]', 'dict[int]', 'list[dict[str]]', 'dict[str, int, int]', 'list[]' if False else 'list[int, str]', 'tuple[()]', 'Callable[int]', 'Callable[[int]]',
			"'dict[str]'", 'dict[str,]', 'dict[()]', 'list[list]', 'int[str]', 'dict[dict[str], int]'])
		shape = rnd.choice([f'a: {ann} = {{}}\n', f'def f() -> {ann}:\n\treturn {{}}\n', f'def f(p: {ann}) -> None:\n\tpass\n', f'class K:\n\tx: {ann}\n',
			f'def f() -> None:\n\tb: {ann} = {{}}\n', f'def f() -> None:\n\tif True:\n\t\tb: {ann} = {{}}\n', f'class K:\n\tdef m(self, p: {ann}) -> None:\n\t\tpass\n'])
		return {'source': rnd.choice(['', 'from collections.abc import Callable\n']) + shape, 'kind': 'ill-formed-annotation'}
	if rnd.random() < 0.3:
		# bare expression statements at module level: resolved while the module's statements are listed, before any preprocessor runs
		return {'source': '\n'.join(rnd.choice(ALPHABET).strip() for _ in range(rnd.randint(1, 4))) + '\n', 'kind': 'soup-lines'}
	return {'source': ''.join(rnd.choice(ALPHABET) + rnd.choice(['', ' ', ' ']) for _ in range(rnd.randint(1, 25))), 'kind': 'soup'}


def bucket_of(e: BaseException) -> str:
	tb = [f for f in traceback.extract_tb(e.__traceback__) if '/rogw/' in f.filename]
	cause = e
	# follow the cause chain to the innermost rogw frame of the original exception
	where = f'{os.path.basename(tb[-1].filename)}:{tb[-1].name}' if tb else 'outside-rogw'
	return f'{type(cause).__name__}@{where}'


_apps: dict = {}


def apps(scratch: str):
	"""(in-memory app, on-disk app with the scratch project as a source dir)."""
	if _apps.get('interrupted'):
		# a case was cut off by the watchdog, possibly in the middle of a cache write: the next cases get fresh apps and fresh cache directories
		n = _apps.get('generation', 0) + 1
		_apps.clear()
		_apps['generation'] = n
	if 'mem' not in _apps:
		from vf import sut
		scratch = os.path.join(scratch, f'gen{_apps.get("generation", 0)}')
		os.makedirs(scratch, exist_ok=True)
		_apps['mem'] = sut.MemApp(scratch)
		proj = os.path.join(scratch, 'proj')
		os.makedirs(proj, exist_ok=True)
		_apps['disk'] = sut.MemApp(scratch, extra_source_dirs=[proj], module_paths=['c07mod'])
		_apps['proj'] = proj
		_apps['n'] = 0
	return _apps


def run_pipeline(load, transpile) -> tuple[str, BaseException | None, str]:
	"""('ok' | 'error:<ErrClass>' | 'crash', exception, stage)"""
	from rogw.tranp.errors import Errors
	stage = 'load'
	try:
		module = load()
		stage = 'transpile'
		transpile(module)
		return 'ok', None, stage
	except Errors.Error as e:
		return f'error:{type(e).__name__}', e, stage
	except Timeout:
		raise
	except RecursionError as e:
		return 'crash', e, stage
	except Exception as e:
		return 'crash', e, stage


def render_ok(e: BaseException, cwd: str | None = None) -> str | None:
	"""str(ErrorRender(e)) must return. The source quotation is only built when '<module path>.py' exists relative to the working
	directory, so errors of on-disk modules are rendered from inside their project directory."""
	from rogw.tranp.view.error_render import ErrorRender
	old = os.getcwd()
	try:
		if cwd:
			os.chdir(cwd)
		text = str(ErrorRender(e))
		return None if isinstance(text, str) else 'render returned a non-string'
	except Timeout:
		raise
	except Exception as ex:
		return bucket_of(ex)
	finally:
		os.chdir(old)


def judge(scratch: str, source: str) -> tuple[list[tuple[str, str]], dict]:
	a = apps(scratch)
	info: dict = {}
	fails: list[tuple[str, str]] = []
	try:
		import warnings
		with warnings.catch_warnings():
			warnings.simplefilter('ignore')
			ast.parse(source)
		py_ok = True
	except (SyntaxError, ValueError, RecursionError, MemoryError):
		py_ok = False
	mem, disk = a['mem'], a['disk']
	a['n'] += 1
	outcomes = {}
	# a fresh module name per case on disk: caches are keyed by path + mtime
	modname = f'c07m{a["n"]}'
	path = os.path.join(a['proj'], modname + '.py')
	raw_bytes = any('\udc80' <= ch <= '\udcff' for ch in source)   # the file is not valid UTF-8: only the on-disk entry point can be given it
	if raw_bytes:
		py_ok = False
	with open(path, 'wb') as f:
		f.write((source if source.endswith('\n') else source + '\n').encode('utf-8', 'surrogateescape'))

	def load_disk():
		disk.modules.unload(modname)
		return disk.modules.load(modname)

	try:
		with watchdog(20):
			if not raw_bytes:
				outcomes['memory'] = run_pipeline(lambda: mem.load_main(source), lambda m: mem.transpiler.transpile(m.entrypoint))
			outcomes['disk'] = run_pipeline(load_disk, lambda m: disk.transpiler.transpile(m.entrypoint))
			for where, (outcome, exc, stage) in outcomes.items():
				if outcome == 'crash':
					fails.append((f'{where}:{stage}:crash:{bucket_of(exc)}', f'{type(exc).__name__}: {str(exc)[:300]}'))
				elif exc is not None:
					bad = render_ok(exc, a['proj'] if where == 'disk' else None)
					if bad:
						fails.append((f'{where}:render:crash:{bad}', f'ErrorRender failed for {type(exc).__name__}'))
			if raw_bytes and outcomes['disk'][0] not in ('error:Syntax', 'crash'):
				fails.append((f'disk:undecodable-not-Syntax:{outcomes["disk"][0]}', f'a file that is not valid UTF-8 was reported as {outcomes["disk"][0]}'))
			lark_rejects = any(o[0] == 'error:Syntax' or (o[0] == 'crash' and o[2] == 'load' and type(o[1]).__module__.startswith('lark')) for o in outcomes.values())
			if not py_ok and lark_rejects:
				for where, (outcome, exc, stage) in outcomes.items():
					if outcome != 'error:Syntax' and outcome != 'crash':
						fails.append((f'{where}:unparsable-not-Syntax:{outcome}', f'text rejected by CPython and lark was reported as {outcome}'))
	except Timeout:
		info['timeout'] = True
		_apps['interrupted'] = True
	finally:
		try:
			disk.modules.unload(modname)
		except Exception:
			pass
		os.unlink(path)
	info['outcomes'] = {k: v[0] for k, v in outcomes.items()}
	info['stages'] = {k: v[2] for k, v in outcomes.items()}
	info['py_ok'] = py_ok
	return fails, info


def interactive(scratch: str, sources: list[str]) -> list[tuple[str, str]]:
	"""Drive bin/transpile.py's Interactive loop with a scripted tty: every submission must be answered, the loop must survive."""
	import rogw.tranp.bin.transpile as tp
	from rogw.tranp.lang.locator import Invoker
	from vf import sut
	a = sut.MemApp(scratch)
	script = [s.split('\n') for s in sources] + [['exit']]
	it = iter(script)
	old = tp.tty
	tp.tty = lambda prompt='': next(it)
	out = io.StringIO()
	try:
		with contextlib.redirect_stdout(out):
			try:
				a.app.resolve(Invoker)(tp.Interactive).run()
			except Exception as e:
				return [(f'interactive:loop-died:{bucket_of(e)}', f'{type(e).__name__}: {str(e)[:200]} after {sources!r}')]
	finally:
		tp.tty = old
	text = out.getvalue()
	answered = text.count('Result:') + text.count('Stacktrace:')
	if answered != len(sources):
		return [('interactive:unanswered', f'{answered} answers for {len(sources)} submissions: {sources!r}')]
	return []


def shard(ctx: core.Ctx) -> None:
	from vf import corpus

	# the interactive loop: two bad submissions followed by a good one
	if ctx.shard == 0:
		for bad in (['x = (1', 'def f(:', 'x = 1'], ['if a:\nb', 'class', 'def f() -> None:\n\tpass'], ['x = = 1', 'y: int = "a" +', 'print(1)']):
			for sig, detail in interactive(ctx.scratch, bad):
				ctx.fail(sig, detail, {'kind': 'interactive', 'sources': bad})
			ctx.case(('interactive', bad), True, sample={'interactive': bad}, labels=['interactive'])

	def body(case: dict) -> None:
		fails, info = judge(ctx.scratch, case['source'])
		if info.get('timeout'):
			ctx.timeouts += 1
			ctx.evaluations += 1
			return
		mem = info['outcomes'].get('memory', '?')
		beyond = (mem != 'error:Syntax' and not (mem == 'crash' and info['stages'].get('memory') == 'load')) or '\n' in case['source'].strip()
		ctx.case([mem, case['source']], beyond, sample={'source': case['source'], 'kind': case['kind'], 'outcomes': info['outcomes']} if len(case['source']) < 200 else None,
			labels=[case['kind'].split(':')[0], 'mem:' + mem.split(':')[-1] if mem.startswith('error') else 'mem:' + mem, 'cpython-accepts' if info['py_ok'] else 'cpython-rejects'])
		for sig, detail in fails:
			ctx.fail(sig, detail + f'\n  source={case["source"]!r}', {'kind': 'source', 'source': case['source']})

	# G3 mutants (a few per shard), then generated cases
	import random
	files = corpus.shard_files(ctx.tier, ctx.shard, ctx.nshards)[:3]
	for path in files:
		rnd = random.Random(ctx.hseed(1))  # file-derived deterministic mutants (no Hypothesis involved: finite list)
		src = corpus.read(path)
		for _ in range(2):
			m, kind = mutate(rnd, src)
			body({'source': m, 'kind': 'g3-mutant:' + kind})
		if ctx.out_of_time():
			break
	core.drive(ctx, cases(frozenset(ctx.excluded)), body, total=ctx.budget['cases'], chunk=50)


def replay(case: dict) -> list[tuple[str, str]]:
	from vf import env
	with env.Scratch('c07r') as s:
		_apps.clear()
		try:
			if case['kind'] == 'interactive':
				return interactive(s.path, case['sources'])
			fails, _ = judge(s.path, case['source'])
			return fails
		finally:
			_apps.clear()


def shrink(failure: dict) -> dict | None:
	"""Line-level, then token-level ddmin keeping the bucket."""
	import re
	from vf import env
	case = failure['case']
	if case['kind'] != 'source':
		return None
	sig = failure['sig']
	with env.Scratch('c07s') as s:
		_apps.clear()
		try:
			def bad(src: str) -> bool:
				if not src.strip():
					return False
				try:
					fails, _ = judge(s.path, src)
				except Exception:
					return False
				return any(x == sig for x, _ in fails)

			src = case['source']
			for splitter, joiner in ((lambda t: t.split('\n'), '\n'), (lambda t: re.findall(r'\s+|\w+|.', t), '')):
				parts = splitter(src)
				budget = 150
				changed = True
				while changed and len(parts) > 1 and budget > 0:
					changed = False
					for i in range(len(parts)):
						budget -= 1
						cand = parts[:i] + parts[i + 1:]
						if bad(joiner.join(cand)):
							parts, changed = cand, True
							break
						if budget <= 0:
							break
				src = joiner.join(parts)
			fails, _ = judge(s.path, src)
			detail = [d for x, d in fails if x == sig]
			if not detail:
				return None
			return dict(failure, case={'kind': 'source', 'source': src}, detail=detail[0] + f'\n  source={src!r}')
		finally:
			_apps.clear()
