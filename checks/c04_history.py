"""C04 — output is deterministic and independent of session history (stateful, against a fresh-process reference)."""
import json
import os
import subprocess
import sys

from hypothesis import strategies as st

from vf import core

PROPERTY = 'C04'
LEVEL = 'exploration'
RULE = ('sessions of 8-25 operations (load, transpile, transpile again, unload respecting the dependency order, raw unload of a dependency followed by a transpile of its dependent, interactive re-submission of __main__ variants, '
	'type_of over every node, random node queries) over one long-lived App and a pool of generated modules (on-disk module A, on-disk module B importing A, 3 in-memory __main__ variants one of which imports A); '
	'oracle: every text obtained in the session equals the text a fresh process produces for that module alone (each in a fresh App), additionally under PYTHONHASHSEED 1 and 12345; symbol descriptions of an untouched module do not change; '
	'the raw-unload rule accepts equal text or an Errors.Error, never different text; non-trivial = an unload followed by a reload of the same module or two different __main__ variants, and a transpile after another module was transpiled; distinct by (pool, operation sequence)')
ASSUMPTIONS = [
	'sources are not edited during a session (that is C05/C06)',
	'the reference is produced by the same code in a fresh process: the check asserts history independence, not any particular text',
	'constructs with a confirmed C01 defect are excluded by construction',
]
BUDGET = {
	'quick': {'seconds': 90, 'sessions': 6, 'shards': 16},
	'thorough': {'seconds': 560, 'sessions': 400, 'shards': 16},
}

NAME_SETS = [('hma', 'hmb', 'hmc'), ('hm', 'hmb', 'hm1'), ('hm', 'hm_b', 'hm_'), ('m1', 'm1b', 'm10'), ('hmaa', 'hmb', 'hma'), ('hmb1', 'hmb', 'hmb10')]
REJECTED_MAIN = "def zz_bad(a_z: int) -> int:\n\tv_z: list[int] = [a_z]\n\td_z: dict[str, int] = {'k': a_z}\n\treturn v_z.nope_z() + undefined_z\n"  # UnresolvedSymbol inside transpile, after templates were rendered
REJECTED_AT_LOAD = "def zz_bad(a_z: UndefinedType_z) -> int:\n\treturn 1\n"
OPS = ['rejected_main', 'load', 'transpile', 'transpile', 'transpile', 'unload', 'main', 'main', 'type_of_all', 'query', 'raw_unload_dep']


@st.composite
def cases(draw, exclude: frozenset = frozenset()):
	from vf import pygen
	rnd = draw(st.randoms(use_true_random=False))
	# module paths in a string-prefix relation (hm / hmb / hm1 ...): a registry keyed by path must not confuse them
	na, nb, nc = rnd.choice(NAME_SETS)
	# C is a second importer of A in half of the pools (else independent): what one importer resolves first (e.g. an instantiation of A's generic class) must not show in the other
	sibling = rnd.random() < 0.5
	two = pygen.gen_two_modules(rnd, set(exclude), na, nb, p_generic=0.7, name_c=nc if sibling else None)
	# variant 0 certainly emits a view dependency (<functional>), variant 1 certainly does not: per-transpile state that leaks shows up
	m0 = pygen.gen_program(rnd, set(exclude), size=1)['source']
	if 'from collections.abc import Callable' not in m0:
		m0 = 'from collections.abc import Callable\n' + m0
	m0 += '\ndef zz_dep(a_z: int) -> int:\n\tfn_z: Callable[[int], int] = lambda p_z: p_z + 1\n\treturn fn_z(a_z)\n'
	m1 = pygen.gen_program(rnd, set(exclude) | {'lambda'}, size=1)['source']
	# the same names with other declarations in the two variants (an inherited method, a function, a class field): whatever an earlier
	# submission resolved for `__main__#ZS.zget` etc. must not survive the re-submission
	tails = []
	for t, v in (('int', '1'), ('str', "'s'")):
		tails.append(f'\nclass ZB:\n\tzf: {t}\n\n\tdef __init__(self) -> None:\n\t\tself.zf = {v}\n\n\tdef zget(self) -> {t}:\n\t\treturn {v}\n\nclass ZS(ZB):\n\tpass\n\n'
			f'def zmake() -> {t}:\n\treturn {v}\n\ndef zuse(s_z: ZS) -> None:\n\ta_z = s_z.zget()\n\tb_z = zmake()\n\tc_z = s_z.zf\n\td_z = [a_z, b_z]\n')
	m0, m1 = m0 + tails[0], m1 + tails[1]
	# an enum member with a computed value read through `.value` (folded to a literal by the evaluator of the transpiler, which lives as long as the session)
	if 'from enum import Enum' not in m0:
		m0 = 'from enum import Enum\n' + m0
	k0 = rnd.randint(1, 5)
	enum_tail = '\nclass ZE(Enum):\n\tZA = 1 << %d\n\tZC = %d\n\ndef zval() -> int:\n\treturn ZE.ZA.value + ZE.ZC.value\n'
	# variant 3 is variant 0 edited in place (only literals differ, every node keeps its path): the commonest re-submission of an interactive session
	m0_edited = m0.replace('p_z + 1', 'p_z + 2') + enum_tail % (k0 + 1, -k0)
	m0 += enum_tail % (k0, k0)
	mains = [m0, m1]
	third = two['c'] if sibling else pygen.gen_program(rnd, set(exclude), size=1)['source']  # module C: independent of A and B unless it is a sibling importer
	# a __main__ variant that imports module A of *this* pool: reuse B's text of a second generation over the same A is not possible, so use B itself as a main variant
	mains.append(two['b'])
	mains.append(m0_edited)
	ops = []
	for _ in range(rnd.randint(8, 25)):
		k = rnd.choice(OPS)
		ops.append([k, rnd.choice(['hma', 'hmb', 'hmc']), rnd.choice([0, 1, 2, 3, 3, 0]), rnd.randint(0, 10 ** 6)])
	return {'a': two['a'], 'b': two['b'], 'c': third, 'c_imports_a': sibling, 'names': [na, nb, nc], 'mains': mains, 'ops': ops}


def reference(scratch: str, proj: str, mains: list[str], hashseed: str, modules: list[str]) -> dict | None:
	from vf import env
	job = os.path.join(scratch, f'job{hashseed}.json')
	with open(job, 'w') as f:
		json.dump({'proj': proj, 'modules': modules, 'mains': mains, 'depends_templates': True}, f)
	e = dict(os.environ, PYTHONHASHSEED=hashseed, VERIF_REPO=env.REPO, VERIF_SCRATCH=scratch)
	p = subprocess.run([sys.executable, os.path.join(env.VERIF_DIR, 'vf', 'ref_transpile.py'), job], capture_output=True, text=True, env=e, timeout=300)
	if p.returncode != 0:
		raise core.HarnessError('reference process failed: ' + p.stderr[-800:])
	return json.loads(p.stdout)


def judge(scratch: str, case: dict, hashseeds: tuple = ('0',)) -> tuple[list[tuple[str, str]], dict]:
	import random
	import shutil
	import tempfile
	from rogw.tranp.errors import Errors
	from rogw.tranp.semantics.reflection.db import SymbolDB
	from rogw.tranp.semantics.reflection.helper.naming import ClassShorthandNaming
	from rogw.tranp.semantics.reflections import Reflections
	from vf import sut
	work = tempfile.mkdtemp(prefix='c04-', dir=scratch)
	info = {'reload': False, 'two_mains': False, 'after_other': False, 'steps': 0, 'rejected': False}
	fails: list[tuple[str, str]] = []
	try:
		proj = os.path.join(work, 'proj')
		os.makedirs(proj)
		A, B, C = case.get('names') or ['hma', 'hmb', None]
		role = {'hma': A, 'hmb': B, 'hmc': C}
		for name, src in ((A, case['a']), (B, case['b']), (C, case.get('c'))):
			if name is None:
				continue
			with open(os.path.join(proj, name + '.py'), 'w') as f:
				f.write(src)
		refs = {hs: reference(work, proj, case['mains'], hs, [x for x in (A, B, C) if x]) for hs in hashseeds}
		ref = refs[hashseeds[0]]
		for hs in hashseeds[1:]:
			if refs[hs] != ref:
				which = [k for k in ref['modules'] if ref['modules'][k] != refs[hs]['modules'][k]] + [f'main{i}' for i, (x, y) in enumerate(zip(ref['mains'], refs[hs]['mains'])) if x != y]
				fails.append(('hashseed-dependent-output', f'PYTHONHASHSEED={hs} changes the output of {which}'))
		if any(str(v).startswith('ERROR') for v in list(ref['modules'].values()) + ref['mains']):
			return [('OUT', 'pool-rejected')], info
		a = sut.MemApp(work, extra_source_dirs=[proj], depends_templates=True)  # list/dict type templates emit include dependencies: the per-transpile stack is observable
		reflections = a.resolve(Reflections)
		db = a.resolve(SymbolDB)
		loaded: set[str] = set()
		unloaded_once: set[str] = set()
		mains_seen: set[int] = set()
		last_transpiled = None
		snapshots: dict[str, dict] = {}
		trace: list[str] = []

		def snapshot(m: str) -> dict:
			out = {}
			import zlib
			for key, raw in db.items(m):
				if zlib.crc32(key.encode()) % 4 == 0:  # a stable sample of the module's symbols
					try:
						out[key] = ClassShorthandNaming.domain_name_for_debug(raw)
					except Errors.Error:
						out[key] = 'ERR'
			return out

		def check_untouched(touched: str) -> None:
			still = {mod.path for mod in a.modules.loaded()}
			for m, snap in snapshots.items():
				if m in still:
					now = snapshot(m)
					if now != snap:
						diff = [k for k in set(snap) | set(now) if now.get(k) != snap.get(k)][:3]
						fails.append(('untouched-module-changed', f'symbols of {m} changed after an operation on {touched}: {diff}\n  session: {"; ".join(trace)}'))

		def do_transpile(m: str, expect: str, label: str) -> None:
			nonlocal last_transpiled
			text = a.transpiler.transpile(a.modules.load(m).entrypoint)
			loaded.add(m)
			if m == B or (m == C and case.get('c_imports_a')):
				loaded.add(A)
			if last_transpiled is not None and last_transpiled != label:
				info['after_other'] = True
			last_transpiled = label
			if text != expect:
				la, lb = expect.split('\n'), text.split('\n')
				k = next((i for i, (x, y) in enumerate(zip(la, lb)) if x != y), min(len(la), len(lb)))
				fails.append(('history-dependent-output', f'{label}: line {k + 1}: fresh process {la[k] if k < len(la) else "<eof>"!r}, in session {lb[k] if k < len(lb) else "<eof>"!r}\n  session: {"; ".join(trace)}'))

		for kind, m, v, seed in case['ops']:
			if fails:
				break
			m = role[m]
			if m is None:
				continue
			info['steps'] += 1
			trace.append(f'{kind}({m if kind not in ("main",) else v})')
			dep = bool(case.get('c_imports_a'))  # C is a second importer of A
			touched = {'__main__'} if kind in ('main', 'rejected_main') else ({A, B} | ({C} if dep else set()) if kind == 'raw_unload_dep' or (kind == 'unload' and (m != C or dep)) else {m})
			if kind in ('load', 'transpile') and (m == B or (m == C and dep)) and A not in loaded:
				touched.add(A)  # loading an importer loads A
			if kind == 'main' and v == 2 and A not in loaded:
				touched.add(A)
			really = {mod.path for mod in a.modules.loaded()} & {A, B, C}
			loaded = set(really)
			if kind == 'main' and v == 2:
				touched.add(A)  # the variant imports A: A may be (re)loaded by it
			snapshots = {x: snapshot(x) for x in loaded if x not in touched}
			try:
				if kind == 'load':
					a.modules.load(m)
					loaded.add(m)
					if m == B or (m == C and dep):
						loaded.add(A)
					if m in unloaded_once:
						info['reload'] = True
				elif kind == 'transpile':
					do_transpile(m, ref['modules'][m], m)
					if m in unloaded_once:
						info['reload'] = True
				elif kind == 'unload':
					order = ([B, C, A] if dep else [B, A]) if m == A else [m]  # importers first
					for x in order:
						if x in loaded:
							a.modules.unload(x)
							loaded.discard(x)
							unloaded_once.add(x)
				elif kind == 'raw_unload_dep':
					if B in loaded and A in loaded:
						if dep and C in loaded:
							a.modules.unload(C)
							loaded.discard(C)
							unloaded_once.add(C)
						a.modules.unload(A)
						loaded.discard(A)
						unloaded_once.add(A)
						try:
							text = a.transpiler.transpile(a.modules.load(B).entrypoint)
							loaded.add(A)
							if text != ref['modules'][B]:
								fails.append(('raw-unload:different-text', f'{B} transpiled after unloading its dependency alone differs from the fresh-process text\n  session: {"; ".join(trace)}'))
						except Errors.Error:
							# accepted outcome; bring the session back to a defined state
							for x in (B, A):
								a.modules.unload(x)
								loaded.discard(x)
				elif kind == 'rejected_main':
					# an interactive submission the transpiler rejects half-way: the session must go on as if it had not happened
					# v selects where the submission fails: inside transpile (after templates were rendered) or already while loading
					# (a parameter annotated with an undefined type fails in the preprocessors, after the entrypoint was registered)
					# ... or, for v >= 2, at the last statement of a text that is otherwise one of the valid variants (a typo in a type annotation):
					# everything declared before it was already registered when the load is rejected
					a.source_provider.source_code = {0: REJECTED_MAIN, 1: REJECTED_AT_LOAD}.get(v) or case['mains'][0 if v == 2 else 1] + '\nzbad_z: UndefinedType_z = zmake()\n'
					a.modules.unload('__main__')
					try:
						a.transpiler.transpile(a.modules.load('__main__').entrypoint)
						raise core.HarnessError('the ill-typed submission was accepted')
					except Errors.Error:
						info['rejected'] = True
				elif kind == 'main':
					a.source_provider.source_code = case['mains'][v]
					a.modules.unload('__main__')
					text = a.transpiler.transpile(a.modules.load('__main__').entrypoint)
					if v == 2:
						loaded.add(A)
					mains_seen.add(v)
					if len(mains_seen) >= 2:
						info['two_mains'] = True
					if last_transpiled is not None and last_transpiled != f'main{v}':
						info['after_other'] = True
					last_transpiled = f'main{v}'
					if text != ref['mains'][v]:
						la, lb = ref['mains'][v].split('\n'), text.split('\n')
						k = next((i for i, (x, y) in enumerate(zip(la, lb)) if x != y), min(len(la), len(lb)))
						fails.append(('history-dependent-output', f'__main__ variant {v}: line {k + 1}: fresh {la[k] if k < len(la) else "<eof>"!r}, in session {lb[k] if k < len(lb) else "<eof>"!r}\n  session: {"; ".join(trace)}'))
				elif kind == 'type_of_all':
					if m in loaded:
						for node in a.modules.load(m).entrypoint.procedural():
							try:
								reflections.type_of(node)
							except Errors.Error:
								pass
							except RecursionError:
								pass
				elif kind == 'query':
					if m in loaded:
						rnd = random.Random(seed)
						nodes = a.modules.load(m).entrypoint.procedural()
						for _ in range(20):
							n = rnd.choice(nodes)
							try:
								rnd.choice([lambda: n.parent, lambda: n._children(), lambda: n.tokens, lambda: n.procedural(), lambda: [getattr(n, k) for k in n.prop_keys()]])()
							except Errors.Error:
								pass
				check_untouched(m if kind not in ('main', 'rejected_main') else '__main__')
			except Errors.Error as e:
				fails.append((f'session:raises:{type(e).__name__}', f'{kind}({m}): {type(e).__name__}: {str(e)[:200]}\n  session: {"; ".join(trace)}'))
		return fails, info
	finally:
		shutil.rmtree(work, ignore_errors=True)


def shard(ctx: core.Ctx) -> None:
	exclude = core.frontend_exclusions() | frozenset(ctx.excluded) | frozenset({'optional', 'iterator-class'})  # Optional values are typed but not transpiled (no None on the C++ side)
	counter = [0]

	def body(case: dict) -> None:
		counter[0] += 1
		seeds = ('0', '1', '12345') if counter[0] % 4 == 2 else ('0',)
		fails, info = judge(ctx.scratch, case, seeds)
		if fails and fails[0][0] == 'OUT':
			ctx.discard(fails[0][1])
			ctx.evaluations += 1
			return
		ctx.extra['steps'] = ctx.extra.get('steps', 0) + info['steps']
		nontrivial = (info['reload'] or info['two_mains']) and info['after_other']
		ctx.case([case['a'], case['b'], case.get('names'), case['ops']], nontrivial, sample={'operations': [f'{o[0]}({o[1] if o[0] != "main" else o[2]})' for o in case['ops']]},
			labels=['session'] + (['sibling-importers'] if case.get('c_imports_a') else []) + (['prefix-related-paths'] if case.get('names') and case['names'][0] != 'hma' else []) + [k for k in ('reload', 'two_mains', 'after_other', 'rejected') if info[k]] + (['hashseeds'] if len(seeds) > 1 else []))
		for sig, detail in fails:
			ctx.fail(sig, detail, case)

	core.drive(ctx, cases(exclude), body, total=ctx.budget['sessions'], chunk=5)


def replay(case: dict) -> list[tuple[str, str]]:
	from vf import env
	with env.Scratch('c04r') as s:
		fails, _ = judge(s.path, case, ('0', '1', '12345'))
		return [f for f in fails if f[0] != 'OUT']


def shrink(failure: dict) -> dict | None:
	"""Drop operations while the bucket stays."""
	from vf import env
	case = failure['case']
	sig = failure['sig']
	with env.Scratch('c04s') as s:
		ops = list(case['ops'])
		seeds = ('0', '1', '12345') if sig.startswith('hashseed') else ('0',)
		budget = 12
		changed = True
		while changed and len(ops) > 1 and budget > 0:
			changed = False
			for i in range(len(ops)):
				cand = ops[:i] + ops[i + 1:]
				budget -= 1
				fails, _ = judge(s.path, dict(case, ops=cand), seeds)
				if any(x == sig for x, _ in fails):
					ops, changed = cand, True
					break
				if budget <= 0:
					break
		fails, _ = judge(s.path, dict(case, ops=ops), seeds)
		detail = [d for x, d in fails if x == sig]
		if not detail:
			return None
		return dict(failure, case=dict(case, ops=ops), detail=detail[0])
