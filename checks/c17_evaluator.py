"""C17 — folding constant expressions gives the value Python gives (differential vs CPython eval)."""
import ast
import struct

from hypothesis import strategies as st

from vf import core

PROPERTY = 'C17'
LEVEL = 'exploration'
RULE = ('generated literal expressions (decimal/hex/underscore ints, floats in every lark FLOAT_NUMBER form, single/double quoted strings with escapes and the other quote inside, '
	'unary + - ~, parentheses, + - * / % | ^ & << >>, casts int()/float()/str(), bare references to earlier members and Other.Member.value references), depth <= 6, '
	'presented as enum member values to LiteralEvaluator.exec; oracle: CPython eval (value and exact type, floats bit-equal, strings via ast.literal_eval) or an application error; '
	'non-trivial = mixes >= 2 operator levels or int with float, or has a negative operand of %/shift, or a member reference; distinct by expression text')
ASSUMPTIONS = [
	'any Errors.Error counts as a refusal (handler exceptions are wrapped into Errors.Fatal by Procedure); only a returned value that differs from CPython is a violation',
	'the evaluator returns strings in quoted source form; they are decoded with ast.literal_eval',
	'CPython 3.12 eval is the reference',
]
# coverage-guided phase of the thorough tier (atheris/libFuzzer over the same strategy and oracle, vf/core.py _drive_atheris)
FUZZ = {'seconds': 120, 'procs': 8, 'max_len': 2048, 'imports': ['rogw.tranp.implements.transpiler.evaluator']}
BUDGET = {
	'quick': {'seconds': 30, 'examples': 1500, 'shards': 16},
	'thorough': {'seconds': 500, 'examples': 40000, 'shards': 16},
}

ARITH = ['+', '-', '*', '/', '%']
BITS = ['|', '^', '&', '<<', '>>']
LEVELS = {'|': 1, '^': 2, '&': 3, '<<': 4, '>>': 4, '+': 5, '-': 5, '*': 6, '/': 6, '%': 6}


def gen_int(rnd) -> str:
	c = rnd.randint(0, 9)
	if c <= 4:
		return str(rnd.choice([0, 1, 2, 3, 5, 7, 8, 10, 16, 31, 40, 255, 1000, 65536, 123456789, 2 ** 31, 2 ** 40 - 1, 2 ** 53 + 1, 2 ** 63 - 1]))
	if c <= 6:
		return str(rnd.randint(0, 99))
	if c == 7:
		return rnd.choice(['1_000', '12_34', '1_0'])
	v = rnd.choice([0, 1, 15, 16, 255, 0xABCDEF, 2 ** 32, 0xdeadbeef, 0x7FFFFFFFFFFFFFFF])
	return rnd.choice(['0x%x', '0x%X', '0X%x']) % v


def gen_float(rnd) -> str:
	return rnd.choice(['0.0', '0.5', '1.5', '2.5', '0.1', '3.14', '10.0', '1.', '.5', '1e3', '1.5e-2', '2E2', '123456.789', '0.30000000000000004', '1e22'])


def gen_str(rnd) -> str:
	q = rnd.choice('"\'')
	other = "'" if q == '"' else '"'
	pieces = ['a', 'b', 'Z', '0', ' ', '12', '1.5', other, '\\n', '\\\\', '\\' + q, '\\' + other, '\\\\\\' + q, '\\x41', '\\t', '%', '{}']
	return q + ''.join(rnd.choice(pieces) for _ in range(rnd.randint(0, 4))) + q


def gen_top(rnd, refs: list[str], stats: dict) -> str:
	c = rnd.randint(0, 9)
	if c <= 1:  # string concatenation chains, the only string operation the evaluator claims
		parts = []
		for _ in range(rnd.randint(2, 4)):
			k = rnd.randint(0, 9)
			if k <= 6:
				parts.append(gen_str(rnd))
			elif k == 7:
				stats['cast'] = True
				parts.append(f'str({rnd.choice([gen_int(rnd), gen_float(rnd), gen_str(rnd)])})')
			elif k == 8 and refs:
				stats['ref'] = True
				parts.append(rnd.choice(refs))
			else:
				parts.append('(' + gen_str(rnd) + ' + ' + gen_str(rnd) + ')')
		stats['ops'].add('+')
		return ' + '.join(parts)
	return gen_expr(rnd, rnd.randint(1, 6) if c <= 8 else 0, refs, stats)


def gen_expr(rnd, depth: int, refs: list[str], stats: dict) -> str:
	c = rnd.randint(3, 19) if depth > 0 else rnd.randint(0, 6)
	if c <= 3:
		return gen_int(rnd)
	if c == 4:
		return gen_float(rnd)
	if c == 5:
		return gen_str(rnd)
	if c == 6:
		if refs:
			stats['ref'] = True
			return rnd.choice(refs)
		return gen_int(rnd)
	if c <= 13:
		n = rnd.randint(2, 4) if rnd.random() < 0.3 else 2
		ops_pool = rnd.choice([ARITH, BITS, ARITH + BITS, ['+'], ['*', '+', '-'], ['%', '<<', '>>']])
		parts = [gen_expr(rnd, depth - 1, refs, stats)]
		for _ in range(n - 1):
			op = rnd.choice(ops_pool)
			stats['ops'].add(op)
			parts.append(op)
			parts.append(gen_expr(rnd, depth - 1, refs, stats))
		return ' '.join(parts)
	if c <= 15:
		return '(' + gen_expr(rnd, depth - 1, refs, stats) + ')'
	if c <= 17:
		op = rnd.choice(['-', '-', '+', '~'])
		stats['unary'] = True
		inner = gen_expr(rnd, depth - 1, refs, stats)
		return op + (inner if rnd.random() < 0.5 else '(' + inner + ')')
	cast = rnd.choice(['int', 'float', 'str'])
	stats['cast'] = True
	return f'{cast}({gen_expr(rnd, depth - 1, refs, stats)})'


class _Skip(Exception):
	"""Evaluation would be unreasonably large (outside the bounded domain of DESIGN.md C17)."""


def safe_eval(expr: str, env: dict):
	"""CPython semantics (the operators are applied by CPython itself) with size guards."""
	import operator
	binops = {ast.Add: operator.add, ast.Sub: operator.sub, ast.Mult: operator.mul, ast.Div: operator.truediv, ast.Mod: operator.mod,
		ast.BitOr: operator.or_, ast.BitXor: operator.xor, ast.BitAnd: operator.and_, ast.LShift: operator.lshift, ast.RShift: operator.rshift}
	unops = {ast.UAdd: operator.pos, ast.USub: operator.neg, ast.Invert: operator.invert}

	def guard(v):
		if isinstance(v, int) and not isinstance(v, bool) and v.bit_length() > 512:
			raise _Skip()
		if isinstance(v, str) and len(v) > 2000:
			raise _Skip()
		return v

	def ev(n):
		if isinstance(n, ast.Constant):
			return n.value
		if isinstance(n, ast.UnaryOp):
			return guard(unops[type(n.op)](ev(n.operand)))
		if isinstance(n, ast.BinOp):
			left, right = ev(n.left), ev(n.right)
			if isinstance(n.op, ast.LShift) and isinstance(right, int) and right > 128:
				raise _Skip()
			if isinstance(n.op, ast.Mult) and ((isinstance(left, str) and isinstance(right, int) and right > 64) or (isinstance(right, str) and isinstance(left, int) and left > 64)):
				raise _Skip()
			return guard(binops[type(n.op)](left, right))
		if isinstance(n, ast.Call) and isinstance(n.func, ast.Name) and n.func.id in ('int', 'float', 'str') and len(n.args) == 1:
			return guard({'int': int, 'float': float, 'str': str}[n.func.id](ev(n.args[0])))
		if isinstance(n, ast.Name):
			return env[n.id]
		if isinstance(n, ast.Attribute) and n.attr == 'value' and isinstance(n.value, ast.Attribute) and isinstance(n.value.value, ast.Name):
			return env[n.value.attr]
		if isinstance(n, ast.Attribute) and n.attr == 'value' and isinstance(n.value, ast.Attribute) and isinstance(n.value.value, ast.Attribute):
			return env[f'{n.value.value.value.id}.{n.value.attr}']  # P.A.M0.value: the enum A nested in class P
		raise core.HarnessError(f'generator produced an unexpected construct: {ast.dump(n)}')

	return ev(ast.parse(expr, mode='eval').body)


@st.composite
def cases(draw):
	rnd = draw(st.randoms(use_true_random=False))
	env: dict = {}
	members_a, members_b = [], []

	def make(names: list, refs_bare: list[str], refs_other: list[str], prefix: str, count: int) -> None:
		for i in range(count):
			stats = {'ops': set(), 'ref': False, 'unary': False, 'cast': False}
			expr = gen_top(rnd, refs_bare + refs_other, stats)
			name = f'{prefix}{i}'
			try:
				value = safe_eval(expr, env)
				ok = isinstance(value, (int, float, str)) and not isinstance(value, bool)
			except _Skip:
				value, ok = None, False
			except core.HarnessError:
				raise
			except Exception as e:  # CPython refuses: the evaluator must refuse too
				value, ok = type(e).__name__, None
			names.append({'name': name, 'expr': expr, 'py': ['raise', value] if ok is None else (['skip'] if not ok else [type(value).__name__, repr(value)]),
				'levels': len({LEVELS[o] for o in stats['ops']}) + (1 if ('.' in expr or 'e' in expr.lower().replace('0x', '')) and any(ch.isdigit() for ch in expr) else 0), 'ref': stats['ref'], 'unary': stats['unary'], 'cast': stats['cast']})
			if ok:
				env[name] = value
				refs_bare.append(name)

	bare_a: list[str] = []
	make(members_a, bare_a, [], 'M', rnd.randint(1, 6))
	# inside B, members of A are reachable as A.Mi.value; python-side they are plain names in env
	other = [f'A.{n}.value' for n in bare_a]
	# a second enum with the same class name and member names, nested in class P: P.A.Mi is another symbol than A.Mi
	nested: list[dict] = []
	if rnd.random() < 0.4:
		for i in range(rnd.randint(1, 3)):
			value = rnd.choice([16 + i, 100 * (i + 1), -3 - i])
			nested.append({'name': f'M{i}', 'expr': str(value)})
			env[f'P.M{i}'] = value
			other.append(f'P.A.M{i}.value')
	bare_b: list[str] = []
	make(members_b, bare_b, other, 'N', rnd.randint(0 if not nested else 2, 5))
	return {'a': members_a, 'b': members_b, 'p': nested}


def source_of(case: dict) -> str:
	lines = ['from enum import Enum']
	if case.get('p'):
		lines += ['class P:', '\tclass A(Enum):'] + [f'\t\t{m["name"]} = {m["expr"]}' for m in case['p']]
	lines += ['class A(Enum):']
	lines += [f'\t{m["name"]} = {m["expr"]}' for m in case['a']]
	if case['b']:
		lines += ['class B(Enum):']
		lines += [f'\t{m["name"]} = {m["expr"]}' for m in case['b']]
	return '\n'.join(lines) + '\n'


_app = None


def app(scratch: str):
	global _app
	if _app is None:
		from vf import sut
		_app = sut.MemApp(scratch)
	return _app


def fresh_app(scratch: str):
	global _app
	_app = None
	return app(scratch)


def same(v, kind: str, text: str) -> str | None:
	"""None if the evaluator's value v denotes the python value (kind, repr text)."""
	pv = ast.literal_eval(text) if kind != 'float' else float(text)
	if kind == 'int':
		return None if (type(v) is int and v == pv) else f'expected int {pv!r}'
	if kind == 'float':
		return None if (type(v) is float and struct.pack('<d', v) == struct.pack('<d', pv)) else f'expected float {pv!r}'
	if type(v) is not str:
		return f'expected str {pv!r}'
	try:
		dec = ast.literal_eval(v)
	except Exception:
		return f'expected a quoted form of {pv!r}, got a malformed literal'
	return None if dec == pv and type(dec) is str else f'expected str {pv!r}'


def judge(case: dict, scratch: str, fresh: bool = False) -> tuple[list[tuple[str, str]], list[dict]]:
	import rogw.tranp.syntax.node.definition as defs
	from rogw.tranp.errors import Errors
	from rogw.tranp.implements.transpiler.evaluator import LiteralEvaluator
	from rogw.tranp.semantics.reflections import Reflections

	a = fresh_app(scratch) if fresh else app(scratch)
	src = source_of(case)
	fails: list[tuple[str, str]] = []
	rows: list[dict] = []
	try:
		module = a.load_main(src)
	except Errors.Error as e:
		return [], [{'outcome': 'module-rejected', 'detail': f'{type(e).__name__}'}]
	ev = LiteralEvaluator(a.resolve(Reflections))
	enums = {n.symbol.tokens: n for n in module.entrypoint.statements if isinstance(n, defs.Enum)}
	for cls, members in (('A', case['a']), ('B', case['b'])):
		if not members:
			continue
		assigns = [s for s in enums[cls].statements if isinstance(s, defs.MoveAssign)]
		if len(assigns) != len(members):
			raise core.HarnessError(f'member count mismatch in {src}')
		for m, node in zip(members, assigns):
			row = dict(m)
			rows.append(row)
			if m['py'][0] == 'skip':
				row['outcome'] = 'skip'
				continue
			try:
				v = ev.exec(node.value)
			except Errors.Error as e:
				row['outcome'] = 'refused:' + type(e).__name__
				continue
			except RecursionError:
				row['outcome'] = 'refused:RecursionError'
				continue
			if m['py'][0] == 'raise':
				row['outcome'] = 'violation'
				fails.append((f'no-refusal:{m["py"][1]}', f'{m["expr"]!r}: CPython raises {m["py"][1]}, evaluator returned {v!r}\n{src}'))
				continue
			err = same(v, m['py'][0], m['py'][1])
			if err is None:
				row['outcome'] = 'equal'
			else:
				row['outcome'] = 'violation'
				kind = m['py'][0]
				fails.append((f'value:{kind}:{"malformed" if "malformed" in err else ("type" if type(v).__name__ != kind else "differs")}',
					f'{cls}.{m["name"]} = {m["expr"]!r}: evaluator returned {v!r} ({type(v).__name__}), {err}\n{src}'))
	return fails, rows


def shard(ctx: core.Ctx) -> None:
	def body(case: dict) -> None:
		fails, rows = judge(case, ctx.scratch)
		for row in rows:
			if row.get('outcome') == 'module-rejected':
				ctx.discard('module-rejected:' + row['detail'])
				continue
			if row['outcome'] == 'skip':
				ctx.discard('python-value-not-scalar')
				continue
			nontrivial = row['outcome'] in ('equal', 'violation') and (row['levels'] >= 2 or row['ref'] or (row['cast'] and row['unary']))
			ctx.case(row['expr'], nontrivial, sample={'expr': row['expr'], 'python': row['py'], 'outcome': row['outcome']},
				labels=[row['outcome'].split(':')[0], 'py-' + row['py'][0]] + (['ref'] if row['ref'] else []))
		for sig, detail in fails:
			ctx.fail(sig, detail, case)

	core.drive(ctx, cases(), body, total=ctx.budget['examples'], chunk=100)


def replay(case: dict) -> list[tuple[str, str]]:
	from vf import env
	with env.Scratch('c17r') as s:
		fails, _ = judge(case, s.path, fresh=True)
		return fails


def shrink(failure: dict) -> dict | None:
	"""Keep only the failing member and the members it refers to."""
	from vf import env
	sig = failure['sig']
	case = failure['case']
	with env.Scratch('c17s') as s:
		best = case
		for cls in ('b', 'a'):
			i = 0
			while i < len(best[cls]):
				cand = {'a': list(best['a']), 'b': list(best['b'])}
				del cand[cls][i]
				try:
					fails, _ = judge(cand, s.path)
				except Exception:
					fails = []
				if any(x == sig for x, _ in fails):
					best = cand
				else:
					i += 1
		fails, _ = judge(best, s.path)
		detail = [d for x, d in fails if x == sig]
		if not detail:
			return None
		return dict(failure, case=best, detail=detail[0])
