"""C02 — the node tree groups programs exactly as CPython parses them (differential parsing)."""
import ast
import os

from hypothesis import strategies as st

from vf import core

PROPERTY = 'C02'
LEVEL = 'exploration'
RULE = ('generated sources (G2, expression-heavy and statement-heavy profiles, inside what the node model represents) and real modules (G3) that both CPython and data/grammar.lark accept; '
	'canon(node tree) == canon(ast.parse(s)) for two independent conversions into one S-expression form (operator chains folded, Group dropped, names reduced to decl/ref/this-param/class-param, '
	'function kind and class-vs-enum derived on the CPython side from Python semantics only); non-trivial = >= 3 operator precedence levels or >= 2 block levels or a compound statement with >= 2 clauses; distinct by source hash')
ASSUMPTIONS = [
	'CPython 3.12 ast is the reference; constructs the canon does not model (listed as Unsupported in vf/pycanon.py) are counted and not judged',
	'chained assignment a = b = c, and Unsupported constructs, are outside the compared subset',
	'type annotations are compared as token text, not structurally',
]
BUDGET = {
	'quick': {'seconds': 40, 'modules': 600, 'shards': 16},
	'thorough': {'seconds': 560, 'modules': 40000, 'shards': 16},
}

_app = None


def app(scratch: str):
	global _app
	if _app is None:
		from vf import sut
		_app = sut.TreeApp(scratch)
	return _app


def judge(a, source: str) -> tuple[list[tuple[str, str]], dict]:
	from rogw.tranp.errors import Errors
	from vf import pycanon
	info: dict = {}
	try:
		want = pycanon.canon_py(source)
	except (SyntaxError, ValueError):
		return [('OUT', 'cpython-rejects')], info
	except pycanon.Unsupported as e:
		return [('OUT', f'canon-unsupported:{e}')], info
	try:
		entry = a.parse(source)
	except Exception:
		return [('OUT', 'lark-rejects')], info
	root = a.nodes_for(entry)
	try:
		got = pycanon.canon_tranp(root)
	except Errors.Error as e:
		import traceback
		tb = [f for f in traceback.extract_tb(e.__traceback__) if '/rogw/' in f.filename]
		where = f'{os.path.basename(tb[-1].filename)}:{tb[-1].name}' if tb else '?'
		node = e.args[0] if e.args else None
		return [(f'node-tree:raises:{type(e).__name__}@{where}', f'{type(e).__name__}: {str(e)[:300]}')], info
	except Exception as e:  # the generic walker met a node shape no well-formed tree has (e.g. a property yielding the wrong kind of node)
		return [(f'node-tree:unexpected-shape:{type(e).__name__}', f'{type(e).__name__}: {str(e)[:300]}')], info
	d = pycanon.first_diff(got, want)
	if d:
		import re
		comps = [re.sub(r'\[\d+\]', '', c) for c in d.split(': ')[0].split('/') if re.sub(r'\[\d+\]', '', c)]
		kind = '/'.join(comps[-2:]) or 'root'
		return [(f'canon-differs:{kind}', d[:700])], info
	return [], info


@st.composite
def cases(draw, exclude: frozenset = frozenset()):
	from vf import syngen
	rnd = draw(st.randoms(use_true_random=False))
	src, stats = syngen.gen_module(rnd, rnd.choice(['mixed', 'mixed', 'expr']), friendly=True, exclude=exclude)
	return {'source': src, 'stats': stats}


def shard(ctx: core.Ctx) -> None:
	from vf import corpus, env

	for path in corpus.shard_files(ctx.tier, ctx.shard, ctx.nshards):
		rel = os.path.relpath(path, env.REPO)
		fails, _ = judge(app(ctx.scratch), corpus.read(path))
		if fails and fails[0][0] == 'OUT':
			ctx.discard('g3-' + fails[0][1].split(':')[0])
			continue
		ctx.case(rel, True, labels=['g3-module'])
		for sig, detail in fails:
			ctx.fail(sig, f'{rel}: {detail}', {'kind': 'file', 'path': rel})
		if ctx.out_of_time():
			break

	def body(case: dict) -> None:
		fails, _ = judge(app(ctx.scratch), case['source'])
		if fails and fails[0][0] == 'OUT':
			ctx.discard(fails[0][1].split(':')[0] if not fails[0][1].startswith('canon-unsupported') else fails[0][1])
			ctx.evaluations += 1
			return
		s = case['stats']
		nontrivial = s['op_levels'] >= 3 or s['block_depth'] >= 2 or s['clauses2']
		ctx.case(case['source'], nontrivial, sample={'source': case['source']} if len(case['source']) < 300 else None, labels=['g2-module'])
		for sig, detail in fails:
			ctx.fail(sig, detail + f'\n  source={case["source"]!r}', {'kind': 'module', 'source': case['source']})

	core.drive(ctx, cases(frozenset(ctx.excluded)), body, total=ctx.budget['modules'], chunk=50)


def replay(case: dict) -> list[tuple[str, str]]:
	from vf import corpus, env
	global _app
	with env.Scratch('c02r') as s:
		_app = None
		try:
			src = corpus.read(os.path.join(env.REPO, case['path'])) if case['kind'] == 'file' else case['source']
			fails, _ = judge(app(s.path), src)
			return [f for f in fails if f[0] != 'OUT']
		finally:
			_app = None


def shrink(failure: dict) -> dict | None:
	"""Statement-level ddmin on generated modules: drop top-level statement groups while the bucket stays."""
	from vf import env
	case = failure['case']
	if case['kind'] != 'module':
		return None
	sig = failure['sig']
	global _app
	with env.Scratch('c02s') as s:
		_app = None
		try:
			a = app(s.path)
			lines = case['source'].split('\n')
			# groups = top-level statements (a line starting at column 0 begins a group)
			groups: list[list[str]] = []
			for line in lines:
				if line and not line[0].isspace() and not line.startswith(')') and not line.startswith(']') and not line.startswith('}'):
					groups.append([line])
				elif groups:
					groups[-1].append(line)
				else:
					groups.append([line])

			def bad(gs) -> bool:
				src = '\n'.join('\n'.join(g) for g in gs) + '\n'
				try:
					fails, _ = judge(a, src)
				except Exception:
					return False
				return any(x == sig for x, _ in fails)

			changed = True
			while changed and len(groups) > 1:
				changed = False
				for i in range(len(groups)):
					cand = groups[:i] + groups[i + 1:]
					if bad(cand):
						groups, changed = cand, True
						break
			src = '\n'.join('\n'.join(g) for g in groups) + '\n'
			fails, _ = judge(a, src)
			detail = [d for x, d in fails if x == sig]
			if not detail:
				return None
			return dict(failure, case={'kind': 'module', 'source': src}, detail=detail[0] + f'\n  source={src!r}')
		finally:
			_app = None
