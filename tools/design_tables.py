#!/usr/bin/env python3
"""Regenerates the generated tables of DESIGN.md (between <!-- BEGIN x --> / <!-- END x --> markers) from known_findings.json and seeded/*/meta.json."""
import glob
import json
import os
import re
import subprocess

ROOT = os.path.dirname(os.path.dirname(os.path.abspath(__file__)))


def esc(t: str) -> str:
	return t.replace('|', '&#124;').replace('\n', ' ')


def fixed_table() -> str:
	data = json.load(open(os.path.join(ROOT, 'known_findings.json')))['findings']
	order = subprocess.run(['git', '-C', '/repo', 'log', '--format=%h', '--reverse'], capture_output=True, text=True).stdout.split()
	rows = [e for e in data if e['status'] == 'fixed']
	rows.sort(key=lambda e: next((i for i, h in enumerate(order) if h.startswith(e['commit'][:7]) or e['commit'].startswith(h)), 999))
	out = ['| commit | property | what failed before the fix | regression replay |', '|--------|----------|----------------------------|-------------------|']
	for e in rows:
		what = re.sub(r'^fixed: property=\S+ \S+ ', '', e['line'])
		out.append(f"| {e['commit']} | {e['property']} | {esc(what)} | `{e.get('replay', '')}` |")
	return '\n'.join(out)


def known_table() -> str:
	data = json.load(open(os.path.join(ROOT, 'known_findings.json')))['findings']
	out = ['| id | what fails | excluded from the campaign by |', '|----|------------|-------------------------------|']
	for e in data:
		if e['status'] == 'known':
			out.append(f"| {e['id']} | {esc(e['description'])} | flag `{e.get('exclude_flag', '')}` |")
	return '\n'.join(out)


# confirmed before tools/seeded.py kept a history: the first quick run on the patched copy missed these (the check was strengthened afterwards)
MISSED_BEFORE_HISTORY = {'C01-dict-get-unary-operand', 'C02-closure-match-outermost-class', 'C03-generic-prop-memo-coarse-key', 'C04-symboldb-unload-prefix',
	'C05-attr-order-lexicographic-restore', 'C06-header-eq-ignores-app-version', 'C17-requote-skips-escape-pairs', 'C19-unbind-generic-alias-stale-instance'}


def seeded_table() -> str:
	out = ['| seeded/ | file changed | first run | now (quick tier) |', '|---------|--------------|-----------|------------------|']
	for d in sorted(glob.glob(os.path.join(ROOT, 'seeded', '*'))):
		meta = json.load(open(os.path.join(d, 'meta.json')))
		patch = open(os.path.join(d, 'patch.diff')).read()
		files = sorted(set(re.findall(r'^\+\+\+ b/(\S+)', patch, re.M)))
		hist = meta.get('history') or []
		first = hist[0] if hist else meta['checks']
		fmt = lambda c: ', '.join(f"{k}: {'caught' if v.get('caught') else 'MISSED'}" for k, v in c.items())
		first_text = f"{meta['property']}: MISSED" if os.path.basename(d) in MISSED_BEFORE_HISTORY else fmt(first)
		out.append(f"| {os.path.basename(d)} | {', '.join(os.path.basename(f) for f in files)} | {first_text} | {fmt(meta['checks'])} |")
	return '\n'.join(out)


def main() -> None:
	path = os.path.join(ROOT, 'DESIGN.md')
	text = open(path).read()
	for name, fn in (('FIXED', fixed_table), ('KNOWN', known_table), ('SEEDED', seeded_table)):
		a, b = f'<!-- BEGIN {name} -->', f'<!-- END {name} -->'
		if a in text:
			text = text[:text.index(a) + len(a)] + '\n' + fn() + '\n' + text[text.index(b):]
	open(path, 'w').write(text)


if __name__ == '__main__':
	main()
