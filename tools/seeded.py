#!/usr/bin/env python3
"""Confirm a seeded change delivered by a sub-agent and run the checks against it.

  tools/seeded.py C18 [--name quote-stack-bottom] [--src /tmp/wt] [--tier quick] [--checks C18,C01]

Steps (all on scratch copies of /repo, removed afterwards): demo passes on the unchanged tree and fails on the
patched tree; the repository's test suite gives the baseline counts on the patched tree (3.12: 334 passed, 3.13: 341 passed);
the registered check(s) are run with VERIF_REPO=<patched copy>.  Result: /verif/seeded/<ID>-<name>/{patch.diff,demo.py,meta.json}.
"""
import argparse
import json
import os
import re
import shutil
import subprocess
import sys
import tempfile
import time

ROOT = os.path.dirname(os.path.dirname(os.path.abspath(__file__)))
PY313 = '/root/.pyenv/versions/3.13.0/bin/python'
SITE = '/venv/lib/python3.12/site-packages'


def sh(cmd, cwd=None, env=None, timeout=3600):
	p = subprocess.run(cmd, cwd=cwd, env=env, capture_output=True, text=True, timeout=timeout)
	return p.returncode, p.stdout + p.stderr


def main() -> int:
	ap = argparse.ArgumentParser()
	ap.add_argument('prop')
	ap.add_argument('--name', default='a')
	ap.add_argument('--src', default='/tmp/wt')
	ap.add_argument('--tier', default='quick')
	ap.add_argument('--checks', default=None)
	ap.add_argument('--skip-tests', action='store_true')
	ap.add_argument('--stored', action='store_true', help='re-confirm the change kept under seeded/<id>-<name>/')
	args = ap.parse_args()
	pid = args.prop
	patch = os.path.join(args.src, f'{pid}_patch.diff')
	demo = os.path.join(args.src, f'{pid}_demo.py')
	note = os.path.join(args.src, f'{pid}_note.md')
	out_dir = os.path.join(ROOT, 'seeded', f'{pid}-{args.name}')
	previous = {}
	if os.path.exists(os.path.join(out_dir, 'meta.json')):
		previous = json.load(open(os.path.join(out_dir, 'meta.json')))
	if args.stored:
		patch, demo, note = os.path.join(out_dir, 'patch.diff'), os.path.join(out_dir, 'demo.py'), os.path.join(out_dir, 'no-note')
	base = '/dev/shm' if os.path.isdir('/dev/shm') else tempfile.gettempdir()
	tmp = tempfile.mkdtemp(prefix='verif-seed-', dir=base)
	meta = {'property': pid, 'name': args.name, 'ran': []}
	try:
		a, b = os.path.join(tmp, 'a'), os.path.join(tmp, 'b')
		for d in (a, b):
			subprocess.check_call(['rsync', '-a', '--exclude', '.git', '--exclude', '.cache', '--exclude', '__pycache__', '/repo/', d + '/'])
		rc, out = sh(['patch', '-p1', '-s', '-d', b, '-i', patch])
		if rc != 0:
			print('PATCH DOES NOT APPLY', out)
			return 3
		# the demo refers to /tmp/wt/<ID>: rewrite to the copy under test
		demo_text = open(demo).read()
		results = {}
		for label, d in (('unchanged', a), ('patched', b)):
			local = os.path.join(tmp, f'demo_{label}.py')
			open(local, 'w').write(demo_text.replace(f'/tmp/wt/{pid}', d))
			env = dict(os.environ, PYTHONPATH=f'{d}:{SITE}', PYTHONDONTWRITEBYTECODE='1')
			rc, out = sh([PY313, local], cwd=d, env=env, timeout=900)
			results[label] = rc
			meta['ran'].append({'cmd': f'cd <{label} copy> && PYTHONPATH=<copy>:{SITE} {PY313} demo.py', 'exit': rc, 'tail': out.strip().splitlines()[-2:]})
			shutil.rmtree(os.path.join(d, '.cache'), ignore_errors=True)
		meta['demo_passes_unchanged'] = results['unchanged'] == 0
		meta['demo_fails_patched'] = results['patched'] != 0
		if not args.skip_tests:
			rc, out = sh(['/venv/bin/python', '-m', 'pytest', '-q', '-p', 'no:cacheprovider', '--timeout=900', '--continue-on-collection-errors'], cwd=b)
			meta['tests_312'] = out.strip().splitlines()[-1]
			shutil.rmtree(os.path.join(b, '.cache'), ignore_errors=True)
			rc, out = sh([PY313, '-m', 'pytest', '-q', '-p', 'no:cacheprovider', '-p', 'no:hypothesispytest'], cwd=b, env=dict(os.environ, PYTHONPATH=SITE))
			meta['tests_313'] = out.strip().splitlines()[-1]
			shutil.rmtree(os.path.join(b, '.cache'), ignore_errors=True)
			meta['tests_unchanged'] = bool(re.search(r'\b334 passed', meta['tests_312'])) and bool(re.search(r'^341 passed', meta['tests_313']))
		else:
			for k in ('tests_312', 'tests_313', 'tests_unchanged'):
				if k in previous:
					meta[k] = previous[k]
		# earlier outcomes are kept: a change that was missed first and caught after strengthening shows both
		meta['history'] = previous.get('history', []) + ([{k: {'caught': v.get('caught'), 'exit': v.get('exit')} for k, v in previous['checks'].items()}] if isinstance(previous.get('checks'), dict) else [])
		checks = (args.checks or pid).split(',')
		meta['checks'] = {}
		for c in checks:
			env = dict(os.environ, VERIF_REPO=b, VERIF_REPLAY_DIR=os.path.join(tmp, 'replays'), VERIF_EVIDENCE_DIR=os.path.join(tmp, 'evidence'))
			t0 = time.time()
			rc, out = sh(['/venv/bin/python', os.path.join(ROOT, 'run.py'), c, '--tier', args.tier], cwd=ROOT, env=env, timeout=7200)
			lines = out.strip().splitlines()
			viol = [l for l in lines if l.startswith('violation bucket')][:3]
			meta['checks'][c] = {'tier': args.tier, 'exit': rc, 'caught': rc == 1, 'wall_s': round(time.time() - t0, 1), 'first_buckets': [v[:400] for v in viol]}
			print(f'check {c} ({args.tier}) on patched copy: exit {rc}')
			for v in viol:
				print('   ', v[:300])
		os.makedirs(out_dir, exist_ok=True)
		if not args.stored:
			shutil.copy(patch, os.path.join(out_dir, 'patch.diff'))
			shutil.copy(demo, os.path.join(out_dir, 'demo.py'))
		if os.path.exists(note):
			meta['needs_to_manifest'] = open(note).read()
		elif 'needs_to_manifest' in previous:
			meta['needs_to_manifest'] = previous['needs_to_manifest']
		with open(os.path.join(out_dir, 'meta.json'), 'w') as f:
			json.dump(meta, f, indent=1)
		print(json.dumps({k: v for k, v in meta.items() if k not in ('ran', 'needs_to_manifest')}, indent=1)[:1500])
		return 0
	finally:
		shutil.rmtree(tmp, ignore_errors=True)


if __name__ == '__main__':
	sys.exit(main())
