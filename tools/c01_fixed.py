#!/usr/bin/env python3
"""Record a fixed C01 defect: writes replays/C01/fixed-<name>.json from a (source, calls) spec and appends the `fixed:` entry.

usage: tools/c01_fixed.py <name> <commit> <sig> <what failed>   (reads the case as JSON {"source":..., "calls":[[py, cpp], ...]} from stdin)
The replay must pass on the current tree (run with run.py C01 --replay) and fail on the parent commit.
"""
import json
import os
import sys

ROOT = os.path.dirname(os.path.dirname(os.path.abspath(__file__)))


def main() -> int:
	name, commit, sig, what = sys.argv[1:5]
	spec = json.load(sys.stdin)
	calls = [{'func': py.split('(')[0], 'py': py, 'cpp': cpp} for py, cpp in spec['calls']]
	case = {'source': spec['source'], 'calls': calls, 'fields': {}, 'shows': [], 'tags': [], 'classes': [], 'enums': [], 'func_tags': {}}
	rel = f'replays/C01/fixed-{name}.json'
	with open(os.path.join(ROOT, rel), 'w') as f:
		json.dump({'property': 'C01', 'sig': sig, 'detail': f'fixed by /repo {commit}', 'case': case}, f, indent=1)
	path = os.path.join(ROOT, 'known_findings.json')
	data = json.load(open(path))
	data['findings'] = [e for e in data['findings'] if e.get('id') != f'C01-F-fixed-{name}']
	data['findings'].append({'property': 'C01', 'id': f'C01-F-fixed-{name}', 'status': 'fixed', 'commit': commit,
		'line': f'fixed: property=C01 {commit} {what}', 'replay': rel})
	with open(path, 'w') as f:
		json.dump(data, f, indent=1, ensure_ascii=False)
	print(rel)
	return 0


if __name__ == '__main__':
	sys.exit(main())
