#!/usr/bin/env python3
"""Sensitivity helper: apply one textual mutation to a scratch copy of /repo and run a check against it.

  tools/mutate.py C19 rogw/tranp/lang/di.py 'OLD' 'NEW' [--tier quick] [--patch file.diff]

Prints the tail of the check output and its exit code; the copy, replays and evidence of the
mutant run live in a scratch directory that is removed afterwards.
"""
import argparse
import os
import shutil
import subprocess
import sys
import tempfile

ROOT = os.path.dirname(os.path.dirname(os.path.abspath(__file__)))


def main() -> int:
	ap = argparse.ArgumentParser()
	ap.add_argument('prop')
	ap.add_argument('file', nargs='?')
	ap.add_argument('old', nargs='?')
	ap.add_argument('new', nargs='?')
	ap.add_argument('--patch')
	ap.add_argument('--tier', default='quick')
	ap.add_argument('--seed', default='1')
	ap.add_argument('--tail', type=int, default=6)
	args = ap.parse_args()
	base = '/dev/shm' if os.path.isdir('/dev/shm') else tempfile.gettempdir()
	tmp = tempfile.mkdtemp(prefix='verif-mut-', dir=base)
	try:
		repo = os.path.join(tmp, 'repo')
		subprocess.check_call(['rsync', '-a', '--exclude', '.git', '--exclude', '.cache', '--exclude', '__pycache__', '/repo/', repo + '/'])
		if args.patch:
			subprocess.check_call(['patch', '-p1', '-s', '-d', repo, '-i', os.path.abspath(args.patch)])
		else:
			path = os.path.join(repo, args.file)
			src = open(path).read()
			old = args.old.encode().decode('unicode_escape')
			new = args.new.encode().decode('unicode_escape')
			if src.count(old) < 1:
				print('MUTATION NOT APPLICABLE: pattern not found')
				return 3
			open(path, 'w').write(src.replace(old, new, 1))
		env = dict(os.environ, VERIF_REPO=repo, VERIF_REPLAY_DIR=os.path.join(tmp, 'replays'), VERIF_EVIDENCE_DIR=os.path.join(tmp, 'evidence'), VERIF_SEED=args.seed)
		p = subprocess.run(['/venv/bin/python', os.path.join(ROOT, 'run.py'), args.prop, '--tier', args.tier], env=env, capture_output=True, text=True, cwd=ROOT)
		lines = (p.stdout + p.stderr).strip().splitlines()
		print('\n'.join(l[:300] for l in lines[-args.tail:]))
		print(f'EXIT {p.returncode}')
		return p.returncode
	finally:
		shutil.rmtree(tmp, ignore_errors=True)


if __name__ == '__main__':
	sys.exit(main())
