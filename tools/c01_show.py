#!/usr/bin/env python3
"""Triage helper: print the C++ that tranp emits for a saved C01 replay (or a .py file) and the outcome."""
import json, sys, os
sys.path.insert(0, os.path.dirname(os.path.dirname(os.path.abspath(__file__))))
from vf import env; env.setup()
from vf import sut, env as E
import checks.c01_translation as c
path = sys.argv[1]
case = json.load(open(path))['case']
with E.Scratch('show') as s:
	a = sut.MemApp(s.path)
	print(case['source'])
	print('-----')
	try:
		print(a.transpile_main(case['source']))
	except Exception as e:
		print('REJECTED', type(e).__name__, str(e)[:500])
	c._state.clear()
	r = c.evaluate(s.path, [dict(case)])[0]
	print('-----', r)
