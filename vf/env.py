"""Process environment for every check: interpreter shims, sys.path, scratch directories.

The repository targets Python 3.13; the pinned interpreter is 3.12.  Two harness-side shims
(DESIGN.md section 0.1) make every module importable without touching /repo:
  1. typing.TypeIs      <- typing_extensions.TypeIs   (before rogw is imported)
  2. Rules.keywords     <- property subclass with __name__ (3.12 property has none)
"""
import os
import shutil
import sys
import tempfile

VERIF_DIR = os.path.dirname(os.path.dirname(os.path.abspath(__file__)))
REPO = os.path.abspath(os.environ.get('VERIF_REPO', '/repo'))

_setup_done = False


def seed() -> int:
	try:
		return int(os.environ.get('VERIF_SEED', '1'))
	except ValueError:
		return 1


def reexec_with_hashseed() -> None:
	"""Re-execute the current process with PYTHONHASHSEED=0 so that set/dict-of-str order is pinned."""
	if os.environ.get('PYTHONHASHSEED') != '0':
		env = dict(os.environ)
		env['PYTHONHASHSEED'] = '0'
		os.execve(sys.executable, [sys.executable] + sys.argv, env)


def setup() -> None:
	"""Apply shims and make `rogw` importable from the tree under test."""
	global _setup_done
	if _setup_done:
		return
	_setup_done = True

	import typing
	if not hasattr(typing, 'TypeIs'):
		import typing_extensions
		typing.TypeIs = typing_extensions.TypeIs  # type: ignore[attr-defined]

	if REPO not in sys.path:
		sys.path.insert(0, REPO)
	deps = os.path.join(VERIF_DIR, '.deps')
	if os.path.isdir(deps) and deps not in sys.path:
		sys.path.append(deps)
	if VERIF_DIR not in sys.path:
		sys.path.insert(0, VERIF_DIR)
	sys.dont_write_bytecode = True
	os.environ.setdefault('ROG_WORKS_TRANP_VERIF', '1')

	if sys.version_info < (3, 13):
		try:
			from rogw.tranp.implements.syntax.tranp import rule as _rule
		except Exception:
			return
		prop = _rule.Rules.__dict__.get('keywords')
		if isinstance(prop, property) and not hasattr(prop, '__name__'):
			class _NamedProperty(property):
				__name__ = 'keywords'
			_rule.Rules.keywords = _NamedProperty(prop.fget, prop.fset, prop.fdel, prop.__doc__)  # type: ignore[assignment]


def scratch_root() -> str:
	base = os.environ.get('VERIF_SCRATCH')
	if not base:
		base = '/dev/shm' if os.path.isdir('/dev/shm') and os.access('/dev/shm', os.W_OK) else tempfile.gettempdir()
	return base


class Scratch:
	"""A per-run scratch directory (removed on exit)."""

	def __init__(self, tag: str) -> None:
		self.path = tempfile.mkdtemp(prefix=f'verif-{tag}-', dir=scratch_root())

	def sub(self, name: str) -> str:
		path = os.path.join(self.path, name)
		os.makedirs(path, exist_ok=True)
		return path

	def fresh(self, prefix: str = 's') -> str:
		return tempfile.mkdtemp(prefix=prefix + '-', dir=self.path)

	def cleanup(self) -> None:
		shutil.rmtree(self.path, ignore_errors=True)

	def __enter__(self) -> 'Scratch':
		return self

	def __exit__(self, *exc) -> None:
		self.cleanup()
