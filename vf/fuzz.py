"""One coverage-guided shard (atheris / libFuzzer) of a check: python vf/fuzz.py <job.json>.

The check's own `shard(ctx)` is run with ctx.fuzz set, so core.drive() hands the strategy and the oracle body to libFuzzer
(Hypothesis `fuzz_one_input`) instead of Hypothesis' random search. The tranp modules named in FUZZ['imports'] are imported
under atheris' bytecode instrumentation first, so that their edge coverage steers the mutation.
"""
import importlib
import json
import os
import sys

sys.path.insert(0, os.path.dirname(os.path.dirname(os.path.abspath(__file__))))
from vf import env  # noqa: E402

env.setup()


def main() -> int:
	import atheris
	job = json.load(open(sys.argv[1]))
	cfg = job['fuzz']
	with atheris.instrument_imports(include=list(cfg.get('imports', ['rogw.tranp']))):
		for name in cfg.get('imports', []):
			importlib.import_module(name)
	from vf import core
	mod = importlib.import_module(job['modname'])
	ctx = core.Ctx(job['prop'], job['tier'], job['seed'], job['shard'], job['nshards'], dict(job['budget'], seconds=cfg['seconds']), job['scratch'], set(job['excluded']))
	ctx.fuzz = cfg
	mod.shard(ctx)
	# shard() returned without reaching drive(): nothing was fuzzed
	with open(cfg['out'], 'w') as f:
		json.dump(ctx.result(), f)
	return 0


if __name__ == '__main__':
	sys.exit(main())
