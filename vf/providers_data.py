"""DataEnvPath for CLI projects: data files (grammar, templates, i18n) are given by absolute paths, the project dir is the cwd."""


def data_env_path():
	import os
	from rogw.tranp.app.dir import tranp_dir
	from rogw.tranp.app.env import DataEnvPath
	return DataEnvPath([os.getcwd(), tranp_dir()])
