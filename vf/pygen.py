"""G1 — typed program generator (by construction, no rejection sampling).

Every expression is generated *for* a requested type in an environment of typed names and rendered with
minimal (plus some redundant) parentheses according to Python's precedence, so that all adjacent
precedence pairs occur with and without source parentheses.  Output: Python source in the style the
transpiler documents through its fixtures (class-body field declarations assigned in __init__,
annotated signatures), the list of entry calls with argument vectors, and feature tags per function.

`exclude` is a set of feature flags (from known_findings.json) that switch off constructs with a
confirmed defect so that the campaign keeps searching behind it.
"""

T_INT, T_BOOL, T_FLOAT, T_STR = ('int',), ('bool',), ('float',), ('str',)

# Python precedence levels
P_TERN, P_OR, P_AND, P_NOT, P_CMP, P_BOR, P_BXOR, P_BAND, P_SHIFT, P_ADD, P_MUL, P_UNARY, P_ATOM = 1, 2, 3, 4, 5, 6, 7, 8, 9, 10, 11, 12, 14

PRIMES = [2, 3, 5, 7, 11, 13]


def py_ty(t) -> str:
	k = t[0]
	if k in ('int', 'bool', 'float', 'str'):
		return k
	if k == 'list':
		return f'list[{py_ty(t[1])}]'
	if k == 'dict':
		return f'dict[{py_ty(t[1])}, {py_ty(t[2])}]'
	if k == 'tuple':
		return 'tuple[' + ', '.join(py_ty(x) for x in t[1:]) + ']'
	if k in ('class', 'enum'):
		return t[1]
	if k == 'callable':
		return 'Callable[[' + ', '.join(py_ty(x) for x in t[1]) + '], ' + py_ty(t[2]) + ']'
	raise ValueError(t)


def py_lit(v) -> str:
	if isinstance(v, bool):
		return 'True' if v else 'False'
	if isinstance(v, str):
		return "'" + v + "'"
	if isinstance(v, list):
		return '[' + ', '.join(py_lit(x) for x in v) + ']'
	if isinstance(v, dict):
		return '{' + ', '.join(f'{py_lit(k)}: {py_lit(x)}' for k, x in v.items()) + '}'
	if isinstance(v, tuple):
		return '(' + ', '.join(py_lit(x) for x in v) + (',' if len(v) == 1 else '') + ')'
	return repr(v)


def cpp_ty(t) -> str:
	k = t[0]
	if k == 'int':
		return 'int'
	if k == 'bool':
		return 'bool'
	if k == 'float':
		return 'float'
	if k == 'str':
		return 'std::string'
	if k == 'list':
		return f'std::vector<{cpp_ty(t[1])}>'
	if k == 'dict':
		return f'std::map<{cpp_ty(t[1])}, {cpp_ty(t[2])}>'
	if k == 'tuple':
		return 'std::tuple<' + ', '.join(cpp_ty(x) for x in t[1:]) + '>'
	raise ValueError(t)


def cpp_lit(v, t) -> str:
	k = t[0]
	if k == 'bool':
		return 'true' if v else 'false'
	if k == 'int':
		return str(v)
	if k == 'float':
		return repr(float(v)) + 'f'
	if k == 'str':
		return f'std::string("{v}")'
	if k == 'list':
		return cpp_ty(t) + '{' + ', '.join(cpp_lit(x, t[1]) for x in v) + '}'
	if k == 'dict':
		return cpp_ty(t) + '{' + ', '.join('{' + cpp_lit(a, t[1]) + ', ' + cpp_lit(b, t[2]) + '}' for a, b in v.items()) + '}'
	if k == 'tuple':
		return cpp_ty(t) + '{' + ', '.join(cpp_lit(x, tt) for x, tt in zip(v, t[1:])) + '}'
	raise ValueError(t)


class Ctx:
	"""Generation context of one function body."""

	def __init__(self, env: dict, tags: set, depth: int, in_loop: bool = False, ret=None, readonly: set | None = None) -> None:
		self.env = env            # name -> type
		self.tags = tags
		self.depth = depth
		self.in_loop = in_loop
		self.ret = ret
		self.readonly = readonly or set()   # names that must not be assigned (loop variables, captured names, parameters holding objects)

	def child(self, **kw) -> 'Ctx':
		c = Ctx(dict(self.env), self.tags, self.depth, self.in_loop, self.ret, set(self.readonly))
		c.in_closure = getattr(self, 'in_closure', False)
		for k, v in kw.items():
			setattr(c, k, v)
		return c


class ProgGen:
	def __init__(self, rnd, exclude: set | None = None, size: int = 2) -> None:
		self.rnd = rnd
		self.exclude = exclude or set()
		self.size = size
		self.n = 0
		self.classes: dict = {}   # name -> {'fields': [(name, type)], 'methods': [(name, params, ret)], 'props': [(name, ret)], 'base': name|None, 'ctor': [(name, type)]}
		self.enums: dict = {}     # name -> [(member, value)]
		self.funcs: list = []     # (name, [(pname, type)], ret, tags)
		self.lines: list[str] = []
		self.uses_callable = False
		self.dead: list = []
		self.fixed_calls: dict = {}
		self.generics: dict = {}
		self.exc: str | None = None
		self.uses_classvar = False
		self.p_generic = 0.3
		self.generic_class_only = False   # module families: the defining module leaves the first instantiation to its importers
		self.force_op: int | None = None   # diagnostics: container probe with one operation kind

	# ---- utils ------------------------------------------------------------------------
	def on(self, flag: str) -> bool:
		return flag not in self.exclude

	def pick(self, seq):
		return seq[self.rnd.randint(0, len(seq) - 1)]

	def chance(self, p: float) -> bool:
		return self.rnd.random() < p

	def fresh(self, prefix: str = 'v') -> str:
		self.n += 1
		return f'{prefix}{self.n}'

	def wrap(self, e, need: int) -> str:
		text, prec = e
		if prec < need or (prec < P_ATOM and self.chance(0.12)):
			return f'({text})'
		return text

	# ---- types ------------------------------------------------------------------------
	def scalar(self):
		return self.pick([T_INT, T_INT, T_INT, T_BOOL, T_STR, T_FLOAT])

	def value_type(self, depth: int = 1):
		c = self.rnd.randint(0, 11)
		if c <= 5 or depth <= 0:
			return self.scalar()
		if c <= 7:
			elems = [T_INT, T_INT, T_STR, T_FLOAT] + ([T_BOOL] if self.on('list-bool') else [])
			return ('list', self.pick(elems) if depth < 2 or self.chance(0.8) else ('list', T_INT))
		if c <= 9:
			return ('dict', self.pick([T_INT, T_STR]), self.pick([T_INT, T_INT, T_STR, T_BOOL]))
		return ('tuple', self.scalar(), self.scalar())

	def sample_value(self, t, small: bool = True):
		k = t[0]
		r = self.rnd
		if k == 'int':
			return self.pick([0, 1, 2, 3, 5, 7, 11, 13, 4, 6, 10, 100, -1, -3, -7]) if not self.chance(0.2) else r.randint(-20, 20)
		if k == 'bool':
			return self.chance(0.5)
		if k == 'float':
			return self.pick([0.0, 0.5, 1.5, 2.0, -0.25, 3.0, 0.125, -2.5])
		if k == 'str':
			return ''.join(self.pick('abcxyz') for _ in range(r.randint(0, 4)))
		if k == 'list':
			return [self.sample_value(t[1]) for _ in range(r.randint(0, 4))]
		if k == 'dict':
			keys = [self.sample_value(t[1]) for _ in range(r.randint(0, 3))]
			return {key: self.sample_value(t[2]) for key in sorted(set(keys), key=lambda x: (str(type(x)), x))}
		if k == 'tuple':
			return tuple(self.sample_value(x) for x in t[1:])
		raise ValueError(t)

	# ---- expressions ------------------------------------------------------------------
	def names_of(self, cx: Ctx, t) -> list[str]:
		return [n for n, ty in cx.env.items() if ty == t]

	def expr(self, cx: Ctx, t, depth: int | None = None):
		"""(text, precedence) of an expression of type t."""
		d = cx.depth if depth is None else depth
		k = t[0]
		fn = {'int': self.e_int, 'bool': self.e_bool, 'float': self.e_float, 'str': self.e_str, 'list': self.e_list, 'dict': self.e_dict, 'tuple': self.e_tuple,
			'class': self.e_obj, 'enum': self.e_enum}[k]
		return fn(cx, t, d)

	def leaf(self, cx: Ctx, t):
		names = self.names_of(cx, t)
		if names and self.chance(0.7):
			return (self.pick(names), P_ATOM)
		k = t[0]
		if k == 'int':
			v = self.pick(PRIMES + [0, 1, 4, 10])
			return (str(v), P_ATOM)
		if k == 'enum':
			return (f'{t[1]}.{self.pick(self.enums[t[1]])[0]}', P_ATOM)
		if k == 'class':
			return self.construct(cx, t, 0)
		v = self.sample_value(t)
		if k in ('list', 'dict') and not v:
			cx.tags.add('empty-literal')
			# an empty literal needs a type carrier: use the constructor-call spelling
			return (f'{py_ty(t)}()', P_ATOM) if False else (py_lit(self.sample_value(t) or ([self.sample_value(t[1])] if k == 'list' else {self.sample_value(t[1]): self.sample_value(t[2])})), P_ATOM)
		return (py_lit(v), P_ATOM)

	def tern(self, cx: Ctx, t, d: int):
		cx.tags.add('ternary')
		c = self.wrap(self.e_bool(cx, T_BOOL, d - 1), P_OR)
		a = self.wrap(self.expr(cx, t, d - 1), P_OR)
		b = self.wrap(self.expr(cx, t, d - 1), P_TERN)
		return (f'{a} if {c} else {b}', P_TERN)

	def e_int(self, cx: Ctx, t, d: int):
		r = self.rnd
		if d <= 0:
			return self.leaf(cx, T_INT)
		c = r.randint(0, 29)
		if c <= 4:
			return self.leaf(cx, T_INT)
		if c <= 10:
			op, p = self.pick([('+', P_ADD), ('-', P_ADD), ('*', P_MUL)])
			cx.tags.add('arith')
			return (f'{self.wrap(self.e_int(cx, t, d - 1), p)} {op} {self.wrap(self.e_int(cx, t, d - 1), p + 1)}', p)
		if c <= 14:
			op, p = self.pick([('&', P_BAND), ('|', P_BOR), ('^', P_BXOR)])
			cx.tags.add('bitwise')
			return (f'{self.wrap(self.e_int(cx, t, d - 1), p)} {op} {self.wrap(self.e_int(cx, t, d - 1), p + 1)}', p)
		if c == 15:
			cx.tags.add('shift')
			base = f'({self.wrap(self.e_int(cx, t, d - 1), P_BAND + 1)} & {self.pick(["7", "15", "255"])})' if self.chance(0.7) else self.pick(['1', '3', '5', '12'])
			return (f'{base} {self.pick(["<<", ">>"])} {self.pick(["1", "2", "3"])}', P_SHIFT)
		if c == 16:
			cx.tags.add('modulo')
			base = f'({self.wrap(self.e_int(cx, t, d - 1), P_BAND + 1)} & {self.pick(["15", "63", "255"])})' if self.chance(0.7) else self.pick(['10', '13', '100'])
			return (f'{base} % {self.pick(["3", "5", "7"])}', P_MUL)
		if c == 17:
			cx.tags.add('unary')
			op = self.pick(['-', '~', '-'])
			inner = self.e_int(cx, t, d - 1)
			text = self.wrap(inner, P_UNARY)
			if text.startswith(('-', '+', '~')) and self.chance(0.5):
				text = f'({text})'  # else `--x` / `-~x`: the operand's own sign directly behind the operator
			return (f'{op}{text}', P_UNARY)
		if c == 18:
			return self.tern(cx, t, d)
		if c == 19:
			seqs = [n for n, ty in cx.env.items() if ty[0] in ('list', 'dict', 'str')]
			if seqs:
				cx.tags.add('len')
				# x.size() is unsigned: bare len() only where signedness cannot matter (guards `len(x) > k`, indices), int(len(x)) elsewhere
				return (f'len({self.pick(seqs)})', P_ATOM) if self.on('len-unsigned') else (f'int(len({self.pick(seqs)}))', P_ATOM)
		if c == 20:
			lists = [n for n, ty in cx.env.items() if ty == ('list', T_INT)]
			if lists and self.on('index'):
				cx.tags.add('index')
				n = self.pick(lists)
				idx, need = self.pick([('0', 0), ('1', 1), (f'len({n}) - 1', 0)])
				return (f'{n}[{idx}] if len({n}) > {need} else {self.pick(PRIMES)}', P_TERN)
		if c == 21:
			dicts = [n for n, ty in cx.env.items() if ty[0] == 'dict' and ty[2] == T_INT]
			if dicts and self.on('dict-get'):
				cx.tags.add('dict-get')
				n = self.pick(dicts)
				key = self.wrap(self.expr(cx, cx.env[n][1], 0), P_TERN)
				call = f'{n}.get({key}, {self.pick(["0", "-1", "7"])})'
				# the call expands to a conditional expression: use it directly as the operand of every operator class
				k = self.rnd.randint(0, 9)
				if k == 0:
					cx.tags.add('dict-get-unary')
					return (f'{self.pick(["-", "~"])}{call}', P_UNARY)
				if k == 1:
					cx.tags.add('dict-get-ternary-cond')
					return (f'{self.pick(PRIMES)} if {call} else {self.pick(PRIMES)}', P_TERN)
				if k == 2:
					cx.tags.add('dict-get-ternary-cond')
					return (f'{self.pick(PRIMES)} if not {call} else {self.pick(PRIMES)}', P_TERN)
				return (call, P_ATOM)
		if c == 22:
			cx.tags.add('cast')
			src = self.pick(['bool', 'float'])
			if src == 'bool':
				return (f'int({self.wrap(self.e_bool(cx, T_BOOL, d - 1), P_TERN)})', P_ATOM)
			return (f'int({self.wrap(self.e_float(cx, T_FLOAT, min(d - 1, 1)), P_TERN)})', P_ATOM)
		if c == 23:
			call = self.call_func(cx, T_INT, d)
			if call:
				return call
		if c == 24:
			acc = self.member_access(cx, T_INT, d)
			if acc:
				return acc
		if c == 25 and self.enums:
			en = self.pick(sorted(self.enums))
			cx.tags.add('enum-value')
			names = self.names_of(cx, ('enum', en))
			if names and self.chance(0.3) and self.on('enum-var-value'):
				cx.tags.add('enum-var-value')
				return (f'{self.pick(names)}.value', P_ATOM)
			return (f'{en}.{self.pick(self.enums[en])[0]}.value', P_ATOM)
		if c == 26:
			tups = [n for n, ty in cx.env.items() if ty[0] == 'tuple' and T_INT in ty[1:]]
			if tups and self.on('tuple-index'):
				n = self.pick(tups)
				idx = [i for i, x in enumerate(cx.env[n][1:]) if x == T_INT]
				cx.tags.add('tuple-index')
				return (f'{n}[{self.pick(idx)}]', P_ATOM)
		return self.leaf(cx, T_INT)

	def e_bool(self, cx: Ctx, t, d: int):
		r = self.rnd
		if d <= 0:
			return self.leaf(cx, T_BOOL)
		c = r.randint(0, 19)
		if c <= 1:
			return self.leaf(cx, T_BOOL)
		if c <= 8:
			cx.tags.add('compare')
			ot = self.pick([T_INT, T_INT, T_INT, T_STR, T_FLOAT])
			ops = ['<', '>', '==', '>=', '<=', '!='] if ot != T_STR else ['==', '!=', '<', '>']
			if ot == T_STR and not self.on('str-literal-compare'):
				names = self.names_of(cx, T_STR)
				if not names:
					ot = T_INT
				else:
					return (f'{self.pick(names)} {self.pick(ops)} {self.wrap(self.expr(cx, ot, d - 1), P_BOR)}', P_CMP)
			return (f'{self.wrap(self.expr(cx, ot, d - 1), P_BOR)} {self.pick(ops)} {self.wrap(self.expr(cx, ot, d - 1), P_BOR)}', P_CMP)
		if c <= 10:
			cx.tags.add('not')
			return (f'not {self.wrap(self.e_bool(cx, t, d - 1), P_NOT)}', P_NOT)
		if c <= 14:
			op, p = self.pick([('and', P_AND), ('or', P_OR)])
			cx.tags.add('boolop')
			n = 3 if self.chance(0.2) else 2
			parts = [self.wrap(self.e_bool(cx, t, d - 1), p + 1) for _ in range(n)]
			return (f' {op} '.join(parts), p)
		if c == 15:
			conts = [n for n, ty in cx.env.items() if ty in (('list', T_INT), ('list', T_STR)) or (ty[0] == 'dict')]
			if conts and self.on('in'):
				n = self.pick(conts)
				et = cx.env[n][1]
				cx.tags.add('in-dict' if cx.env[n][0] == 'dict' else 'in-list')
				return (f'{self.wrap(self.expr(cx, et, d - 1), P_BOR)} {self.pick(["in", "not in"])} {n}', P_CMP)
		if c == 16:
			return self.tern(cx, t, d)
		if c == 17:
			strs = self.names_of(cx, T_STR)
			if strs and self.on('str-methods'):
				cx.tags.add('str-methods')
				return (f"{self.pick(strs)}.{self.pick(['startswith', 'endswith'])}('{self.pick('abx')}')", P_ATOM)
		if c == 18:
			acc = self.member_access(cx, T_BOOL, d)
			if acc:
				return acc
		if c == 19:
			call = self.call_func(cx, T_BOOL, d)
			if call:
				return call
		return (f'{self.wrap(self.e_int(cx, T_INT, d - 1), P_BOR)} {self.pick(["<", "==", "!=", ">"])} {self.wrap(self.e_int(cx, T_INT, d - 1), P_BOR)}', P_CMP)

	def e_float(self, cx: Ctx, t, d: int):
		if d <= 0:
			return self.leaf(cx, T_FLOAT)
		c = self.rnd.randint(0, 10)
		if c == 10 and self.on('int-true-div'):
			# same-precedence chains whose links have different result types: int * int / int is a float (outside C01's domain: int/int true division)
			cx.tags.add('int-true-div')
			ints = [self.wrap(self.e_int(cx, T_INT, 0), P_MUL + 1) for _ in range(3)]
			div = self.pick(['3', '5', '7'])
			return (self.pick([f'{ints[0]} * {ints[1]} / {div}', f'{ints[0]} % {div} / {div}', f'{ints[0]} * {ints[1]} * {ints[2]} / {div}', f'{ints[0]} / {div}', f'{ints[0]} / {div} * {ints[1]}']), P_MUL)
		if c <= 3 or c == 10:
			return self.leaf(cx, T_FLOAT)
		if c <= 6:
			op, p = self.pick([('+', P_ADD), ('-', P_ADD), ('*', P_MUL)])
			cx.tags.add('float-arith')
			return (f'{self.wrap(self.e_float(cx, t, d - 1), p)} {op} {self.wrap(self.e_float(cx, t, d - 1), p + 1)}', p)
		if c == 7:
			cx.tags.add('cast')
			return (f'float({self.wrap(self.e_int(cx, T_INT, min(d - 1, 1)), P_TERN)})', P_ATOM)
		if c == 8:
			return self.tern(cx, t, d)
		cx.tags.add('float-int-mix')
		if self.chance(0.3):
			# one flat chain with an int first and last and a float in the middle: the type is folded left to right, so it is float
			cx.tags.add('float-int-chain')
			op1, op2, p = self.pick([('+', '+', P_ADD), ('+', '-', P_ADD), ('-', '+', P_ADD), ('*', '*', P_MUL)])
			return (f'{self.wrap(self.leaf(cx, T_INT), p)} {op1} {self.wrap(self.leaf(cx, T_FLOAT), p + 1)} {op2} {self.wrap(self.leaf(cx, T_INT), p + 1)}', p)
		if self.chance(0.5):  # int operand on the left: the result type must still be float
			op, p = self.pick([('*', P_MUL), ('+', P_ADD), ('-', P_ADD)])
			return (f'{self.wrap(self.leaf(cx, T_INT), p)} {op} {self.wrap(self.e_float(cx, t, d - 1), p + 1)}', p)
		return (f'{self.wrap(self.e_float(cx, t, d - 1), P_MUL)} * {self.wrap(self.leaf(cx, T_INT), P_UNARY)}', P_MUL)

	def e_str(self, cx: Ctx, t, d: int):
		if d <= 0:
			return self.leaf(cx, T_STR)
		c = self.rnd.randint(0, 9)
		if c <= 3:
			return self.leaf(cx, T_STR)
		if c <= 6:
			cx.tags.add('str-concat')
			if not self.on('str-literal-concat'):
				# known finding: "a" + "b" is rendered as two C string literals (no operator+); keep a named operand on the left
				names = self.names_of(cx, T_STR)
				if not names:
					return self.leaf(cx, T_STR)
				return (f'{self.pick(names)} + {self.wrap(self.e_str(cx, t, d - 1), P_MUL)}', P_ADD)
			return (f'{self.wrap(self.e_str(cx, t, d - 1), P_ADD)} + {self.wrap(self.e_str(cx, t, d - 1), P_MUL)}', P_ADD)
		if c == 7:
			cx.tags.add('cast-str')
			return (f'str({self.wrap(self.e_int(cx, T_INT, min(d - 1, 1)), P_TERN)})', P_ATOM)
		if c == 8:
			return self.tern(cx, t, d)
		strs = self.names_of(cx, T_STR)
		if strs and self.on('str-slice'):
			cx.tags.add('str-slice')
			n = self.pick(strs)
			sl, need = self.pick([('[1:]', 1), ('[:1]', 1), ('[0:2]', 2), (f'[1:len({n})]', 1)])
			return (f'{n}{sl} if len({n}) >= {need} else {n}', P_TERN)
		return self.leaf(cx, T_STR)

	def e_list(self, cx: Ctx, t, d: int):
		et = t[1]
		c = self.rnd.randint(0, 9)
		names = self.names_of(cx, t)
		if names and c <= 2:
			return (self.pick(names), P_ATOM)
		if c <= 5 or d <= 0:
			n = self.rnd.randint(1, 4)
			return ('[' + ', '.join(self.wrap(self.expr(cx, et, max(0, d - 1)), P_TERN) for _ in range(n)) + ']', P_ATOM)
		if c <= 7 and self.on('list-comp'):
			cx.tags.add('list-comp')
			var = self.fresh('e')
			src_t = self.pick([T_INT, et])
			inner = cx.child()
			inner.env[var] = src_t
			if self.chance(0.5) and self.on('comp-range'):
				cx.tags.add('comp-range')
				inner.env[var] = T_INT
				src = f'range({self.pick(["2", "3", "4"])})'
			else:
				srcs = self.names_of(cx, ('list', src_t))
				if not srcs:  # a comprehension over a list *literal* has no C++ spelling (initializer list of initializer lists)
					return ('[' + ', '.join(self.wrap(self.expr(cx, et, max(0, d - 1)), P_TERN) for _ in range(2)) + ']', P_ATOM)
				src = self.pick(srcs)
			proj = self.wrap(self.expr(inner, et, 1), P_TERN)
			cond = f' if {self.wrap(self.e_bool(inner, T_BOOL, 1), P_OR)}' if self.chance(0.4) else ''
			if cond:
				cx.tags.add('comp-if')
			return (f'[{proj} for {var} in {src}{cond}]', P_ATOM)
		if names and self.on('list-slice'):
			cx.tags.add('list-slice')
			n = self.pick(names)
			sl, need = self.pick([('[1:]', 1), ('[:1]', 1), ('[0:2]', 2), (f'[1:len({n})]', 1)])
			return (f'{n}{sl} if len({n}) >= {need} else {n}', P_TERN)
		return (py_lit([self.sample_value(et) for _ in range(self.rnd.randint(1, 3))]), P_ATOM)

	def e_dict(self, cx: Ctx, t, d: int):
		names = self.names_of(cx, t)
		c = self.rnd.randint(0, 9)
		if names and c <= 3:
			return (self.pick(names), P_ATOM)
		if c <= 7 or not self.on('dict-comp'):
			keys = sorted({self.sample_value(t[1]) for _ in range(self.rnd.randint(1, 3))}, key=lambda x: (str(type(x)), x))
			return ('{' + ', '.join(f'{py_lit(k)}: {self.wrap(self.expr(cx, t[2], max(0, d - 1)), P_TERN)}' for k in keys) + '}', P_ATOM)
		cx.tags.add('dict-comp')
		var = self.fresh('e')
		inner = cx.child()
		inner.env[var] = t[1]
		srcs = self.names_of(cx, ('list', t[1]))
		if not srcs:
			keys = sorted({self.sample_value(t[1]) for _ in range(2)}, key=lambda x: (str(type(x)), x))
			return ('{' + ', '.join(f'{py_lit(k)}: {self.wrap(self.expr(cx, t[2], max(0, d - 1)), P_TERN)}' for k in keys) + '}', P_ATOM)
		src = self.pick(srcs)
		return (f'{{{var}: {self.wrap(self.expr(inner, t[2], 1), P_TERN)} for {var} in {src}}}', P_ATOM)

	def e_tuple(self, cx: Ctx, t, d: int):
		names = self.names_of(cx, t)
		if names and self.chance(0.4):
			return (self.pick(names), P_ATOM)
		return ('(' + ', '.join(self.wrap(self.expr(cx, x, max(0, d - 1)), P_TERN) for x in t[1:]) + ')', P_ATOM)

	def e_enum(self, cx: Ctx, t, d: int):
		return self.leaf(cx, t)

	def construct(self, cx: Ctx, t, d: int):
		info = self.classes[t[1]]
		cx.tags.add('construct')
		if info.get('factory') and self.chance(0.25) and self.on('classmethod'):
			cx.tags.add('classmethod')
			args = ', '.join(self.wrap(self.expr(cx, pt, min(d, 1)), P_TERN) for _, pt in info['factory'])
			return (f'{t[1]}.make({args})', P_ATOM)
		args = ', '.join(self.wrap(self.expr(cx, pt, min(d, 1)), P_TERN) for _, pt in info['ctor'])
		return (f'{t[1]}({args})', P_ATOM)

	def e_obj(self, cx: Ctx, t, d: int):
		names = self.names_of(cx, t)
		if names and self.chance(0.6):
			return (self.pick(names), P_ATOM)
		return self.construct(cx, t, d)

	def call_func(self, cx: Ctx, t, d: int):
		cands = [f for f in self.funcs if f[2] == t]
		if not cands:
			return None
		name, params, _, _ = self.pick(cands)
		cx.tags.add('call')
		args = []
		for i, (pn, pt, default) in enumerate(params):
			if default is not None and self.chance(0.5) and all(p[2] is not None for p in params[i:]):
				cx.tags.add('default-arg')
				break
			a = self.wrap(self.expr(cx, pt, min(d - 1, 1)), P_TERN)
			if self.chance(0.15) and self.on('keyword-arg') and i == len(params) - 1:
				cx.tags.add('keyword-arg')
				a = f'{pn}={a}'
			args.append(a)
		return (f'{name}({", ".join(args)})', P_ATOM)

	def member_access(self, cx: Ctx, t, d: int):
		objs = [(n, ty) for n, ty in cx.env.items() if ty[0] == 'class']
		if not objs:
			return None
		n, ty = self.pick(objs)
		info = self.classes[ty[1]]
		opts = []
		for fn, ft in self.all_fields(ty[1]):
			if ft == t:
				opts.append(('field', fn))
		for mn, params, ret in self.all_methods(ty[1]):
			if ret == t:
				opts.append(('method', mn, params))
		for pn, ret in self.all_props(ty[1]):
			if ret == t and self.on('property'):
				opts.append(('prop', pn))
		if not opts:
			return None
		o = self.pick(opts)
		recv = n
		if o[0] == 'field':
			cx.tags.add('field')
			return (f'{recv}.{o[1]}', P_ATOM)
		if o[0] == 'prop':
			cx.tags.add('property')
			return (f'{recv}.{o[1]}', P_ATOM)
		cx.tags.add('method-call')
		args = ', '.join(self.wrap(self.expr(cx, pt, min(d - 1, 1)), P_TERN) for _, pt in o[2])
		return (f'{recv}.{o[1]}({args})', P_ATOM)

	def all_fields(self, cname: str) -> list:
		info = self.classes[cname]
		return (self.all_fields(info['base']) if info['base'] else []) + info['fields']

	def all_methods(self, cname: str) -> list:
		info = self.classes[cname]
		own = {m[0] for m in info['methods']}
		return [m for m in (self.all_methods(info['base']) if info['base'] else []) if m[0] not in own] + info['methods']

	def all_props(self, cname: str) -> list:
		info = self.classes[cname]
		return (self.all_props(info['base']) if info['base'] else []) + info['props']

	# ---- statements -------------------------------------------------------------------
	def assignable(self, cx: Ctx, pred=lambda t: True) -> list[str]:
		return [n for n, t in cx.env.items() if n not in cx.readonly and pred(t)]

	def block(self, cx: Ctx, ind: str, n: int, new_scope: bool = True) -> list[str]:
		"""Statements of a nested block: names declared inside stay inside (C++ block scope)."""
		inner = cx.child() if new_scope else cx
		before = set(cx.env)
		out: list[str] = []
		for _ in range(n):
			out.extend(self.stmt(inner, ind))
		# names that went out of scope with this block may be declared again in a sibling block (same type, as a C++ programmer would)
		self.dead += [(name, t) for name, t in inner.env.items() if name not in before and name.startswith('v')]
		return out or [ind + 'pass']

	def stmt(self, cx: Ctx, ind: str) -> list[str]:
		r = self.rnd
		c = r.randint(0, 39)
		d = cx.depth
		if c <= 7:
			t = self.value_type()
			name = self.fresh()
			reuse = [(n, ty) for n, ty in self.dead if n not in cx.env and n not in cx.readonly]
			if reuse and self.chance(0.35) and self.on('sibling-name-reuse'):
				name, t = self.pick(reuse)
				cx.tags.add('sibling-name-reuse')
			e = self.wrap(self.expr(cx, t), 0)
			annotated = self.chance(0.35) or t[0] == 'float'
			cx.tags.add('decl-annotated' if annotated else 'decl-inferred')
			line = f'{ind}{name}: {py_ty(t)} = {e}' if annotated else f'{ind}{name} = {e}'
			cx.env[name] = t
			return [line]
		if c <= 11:
			names = self.assignable(cx, lambda t: t[0] in ('int', 'bool', 'str', 'float'))
			if names:
				n = self.pick(names)
				cx.tags.add('reassign')
				return [f'{ind}{n} = {self.wrap(self.expr(cx, cx.env[n]), 0)}']
		if c <= 15:
			names = self.assignable(cx, lambda t: t == T_INT)
			if names:
				n = self.pick(names)
				op = self.pick(['+=', '-=', '*=', '^=', '|=', '&='])
				cx.tags.add('aug-assign')
				return [f'{ind}{n} {op} {self.wrap(self.e_int(cx, T_INT, 1), 0)}']
			names = self.assignable(cx, lambda t: t == T_STR)
			if names:
				cx.tags.add('aug-assign-str')
				return [f'{ind}{self.pick(names)} += {self.wrap(self.e_str(cx, T_STR, 1), 0)}']
		if c <= 19 and cx.depth > 0:
			cx.tags.add('if')
			out = [f'{ind}if {self.wrap(self.e_bool(cx, T_BOOL, 2), 0)}:']
			sub = cx.child(depth=cx.depth - 1)
			out += self.block(sub, ind + '\t', r.randint(1, 2))
			for _ in range(r.randint(0, 2) if self.chance(0.4) else 0):
				cx.tags.add('elif')
				out.append(f'{ind}elif {self.wrap(self.e_bool(cx, T_BOOL, 2), 0)}:')
				out += self.block(sub, ind + '\t', r.randint(1, 2))
			if self.chance(0.5):
				cx.tags.add('else')
				out.append(f'{ind}else:')
				out += self.block(sub, ind + '\t', r.randint(1, 2))
			return out
		if c <= 22 and cx.depth > 0:
			return self.for_stmt(cx, ind)
		if c == 23 and cx.depth > 0 and self.on('while'):
			cx.tags.add('while')
			i = self.fresh('i')
			lim = self.pick(['2', '3', '4'])
			cx.env[i] = T_INT
			cx.readonly.add(i)
			sub = cx.child(depth=cx.depth - 1, in_loop=False)  # no continue: it would skip the increment
			body = self.block(sub, ind + '\t', r.randint(1, 2))
			return [f'{ind}{i} = 0', f'{ind}while {i} < {lim}:'] + body + [f'{ind}\t{i} += 1']
		if c <= 25:
			lists = self.assignable(cx, lambda t: t[0] == 'list')
			if lists and self.on('list-methods'):
				n = self.pick(lists)
				et = cx.env[n][1]
				m = self.pick(['append', 'append', 'insert', 'pop', 'extend', 'set', 'clear'])
				cx.tags.add(f'list-{m}')
				v = self.wrap(self.expr(cx, et, 1), P_TERN)
				if m == 'append':
					return [f'{ind}{n}.append({v})']
				if m == 'insert' and self.on('list-insert'):
					return [f'{ind}{n}.insert(0, {v})']
				if m == 'pop' and self.on('list-pop'):
					return [f'{ind}if len({n}) > 0:', f'{ind}\t{n}.pop()']
				if m == 'extend' and self.on('list-extend'):
					return [f'{ind}{n}.extend({self.wrap(self.e_list(cx, cx.env[n], 1), P_TERN)})']
				if m == 'set' and self.on('list-set'):
					return [f'{ind}if len({n}) > 0:', f'{ind}\t{n}[0] = {v}']
				if m == 'clear' and self.chance(0.3):
					return [f'{ind}{n}.clear()']
				return [f'{ind}{n}.append({v})']
		if c <= 27:
			dicts = self.assignable(cx, lambda t: t[0] == 'dict')
			if dicts and self.on('dict-set'):
				n = self.pick(dicts)
				cx.tags.add('dict-set')
				kt, vt = cx.env[n][1], cx.env[n][2]
				return [f'{ind}{n}[{self.wrap(self.expr(cx, kt, 0), P_TERN)}] = {self.wrap(self.expr(cx, vt, 1), P_TERN)}']
		if c == 28 and cx.depth > 0 and self.on('try'):
			cx.tags.add('try')
			sub = cx.child(depth=cx.depth - 1)
			body = self.block(sub, ind + '\t', r.randint(1, 2))
			cond = self.wrap(self.e_bool(cx, T_BOOL, 1), 0)
			raise_ = [f'{ind}\tif {cond}:', f"{ind}\t\traise {self.exc_class(cx)}('{self.pick(['a', 'bad', 'x1'])}')"]
			handler = self.block(sub, ind + '\t', r.randint(1, 2))
			return [f'{ind}try:'] + body + raise_ + body[:0] + [f'{ind}except {self.exc_class(cx)} as {self.fresh("ex")}:'] + handler
		if c == 29 and self.on('raise') and cx.depth > 0:
			cx.tags.add('raise')
			return [f'{ind}if {self.wrap(self.e_bool(cx, T_BOOL, 1), 0)}:', f"{ind}\traise {self.exc_class(cx)}('{self.pick(['e', 'oops'])}')"]
		if c == 30 and self.on('destructure'):
			tups = [n for n, t in cx.env.items() if t[0] == 'tuple']
			if tups:
				n = self.pick(tups)
				a, b = self.fresh(), self.fresh()
				cx.tags.add('destructure')
				cx.env[a], cx.env[b] = cx.env[n][1], cx.env[n][2]
				return [f'{ind}{a}, {b} = {n}']
		if c == 31 and cx.depth > 0 and self.on('closure') and cx.ret is not None:
			return self.closure(cx, ind)
		if c == 32 and self.on('lambda') and (not getattr(cx, 'in_closure', False) or self.on('lambda-in-closure')):
			return self.lambda_stmt(cx, ind)
		if c == 33 and cx.in_loop and self.on('break-continue'):
			cx.tags.add('break-continue')
			kw = self.pick(['break', 'continue'])
			cx.tags.add(kw)
			return [f'{ind}if {self.wrap(self.e_bool(cx, T_BOOL, 1), 0)}:', f'{ind}\t{kw}']
		if c == 34 and cx.ret is not None and cx.depth > 0:
			cx.tags.add('early-return')
			return [f'{ind}if {self.wrap(self.e_bool(cx, T_BOOL, 1), 0)}:', f'{ind}\treturn {self.wrap(self.expr(cx, cx.ret, 1), 0)}']
		if c == 35 and self.classes and self.on('object-local'):
			cname = self.pick(sorted(self.classes))
			name = self.fresh('o')
			cx.tags.add('object-local')
			e = self.construct(cx, ('class', cname), 1)
			cx.env[name] = ('class', cname)
			cx.readonly.add(name)
			return [f'{ind}{name} = {e[0]}']
		if c == 36 and self.on('field-assign'):
			objs = [(n, t) for n, t in cx.env.items() if t[0] == 'class' and n.startswith('o')]
			if objs:
				n, t = self.pick(objs)
				fields = [(f, ft) for f, ft in self.all_fields(t[1]) if ft[0] in ('int', 'str', 'bool')]
				if fields:
					f, ft = self.pick(fields)
					cx.tags.add('field-assign')
					return [f'{ind}{n}.{f} = {self.wrap(self.expr(cx, ft, 1), 0)}']
		if c == 37 and self.enums and self.on('enum-local'):
			en = self.pick(sorted(self.enums))
			name = self.fresh('m')
			cx.tags.add('enum-local')
			cx.env[name] = ('enum', en)
			return [f'{ind}{name} = {en}.{self.pick(self.enums[en])[0]}']
		# default: declare an int
		name = self.fresh()
		text = self.wrap(self.expr(cx, T_INT), 0)
		cx.env[name] = T_INT
		cx.tags.add('decl-inferred')
		return [f'{ind}{name} = {text}']

	def for_stmt(self, cx: Ctx, ind: str) -> list[str]:
		r = self.rnd
		c = r.randint(0, 9)
		sub = cx.child(depth=cx.depth - 1, in_loop=True)
		var = self.fresh('k')
		if c <= 2:
			cx.tags.add('for-range')
			args = self.pick(['3', '4', '1, 4', '0, 5, 2', '2, 6'])
			if ',' in args:
				cx.tags.add('for-range-multi')
			sub.env[var] = T_INT
			sub.readonly.add(var)
			head = f'{ind}for {var} in range({args}):'
		elif c <= 4:
			lists = [n for n, t in cx.env.items() if t[0] == 'list' and t[1][0] in ('int', 'str', 'bool', 'float')]
			if not lists:
				return self.stmt(cx, ind)
			n = self.pick(lists)
			cx.tags.add('for-list')
			sub.env[var] = cx.env[n][1]
			sub.readonly.update([var, n])
			head = f'{ind}for {var} in {n}:'
		elif c <= 6 and self.on('enumerate'):
			lists = [n for n, t in cx.env.items() if t[0] == 'list' and t[1][0] in ('int', 'str', 'bool', 'float')]
			if not lists:
				return self.stmt(cx, ind)
			n = self.pick(lists)
			idx = self.fresh('i')
			cx.tags.add('enumerate')
			sub.env[var] = cx.env[n][1]
			sub.env[idx] = T_INT
			sub.readonly.update([var, idx, n])
			if not self.on('enumerate-continue'):
				sub.in_loop = False
			head = f'{ind}for {idx}, {var} in enumerate({n}):'
		else:
			dicts = [n for n, t in cx.env.items() if t[0] == 'dict']
			if not dicts or not self.on('dict-iter'):
				return self.stmt(cx, ind)
			n = self.pick(dicts)
			kt, vt = cx.env[n][1], cx.env[n][2]
			view = self.pick(['items', 'keys', 'values'])
			cx.tags.add(f'dict-{view}')
			sub.readonly.add(n)
			if view == 'items':
				v2 = self.fresh('w')
				sub.env[var], sub.env[v2] = kt, vt
				sub.readonly.update([var, v2])
				head = f'{ind}for {var}, {v2} in {n}.items():'
			elif view == 'keys':
				sub.env[var] = kt
				sub.readonly.add(var)
				head = f'{ind}for {var} in {n}.keys():'
			else:
				sub.env[var] = vt
				sub.readonly.add(var)
				head = f'{ind}for {var} in {n}.values():'
		body = self.block(sub, ind + '\t', r.randint(1, 3), new_scope=False)
		return [head] + body

	def closure(self, cx: Ctx, ind: str) -> list[str]:
		cx.tags.add('closure')
		name = self.fresh('g')
		pt, rt = self.pick([T_INT, T_STR, T_BOOL]), self.pick([T_INT, T_INT, T_STR])
		p = self.fresh('p')
		# captured names must not be assigned afterwards (C++ captures are copies): freeze every visible scalar
		inner = Ctx({n: t for n, t in cx.env.items() if t[0] in ('int', 'str', 'bool', 'float')}, cx.tags, 1, False, rt, set(cx.env))
		inner.env[p] = pt
		inner.readonly.add(p)
		inner.in_closure = True
		body = [f'{ind}\t{l.lstrip()}' if False else l for l in self.block(inner, ind + '\t', self.rnd.randint(0, 1), new_scope=False)] if self.chance(0.5) else []
		ret = f'{ind}\treturn {self.wrap(self.expr(inner, rt, 2), 0)}'
		cx.readonly.update(n for n in cx.env)
		res = self.fresh()
		arg = self.wrap(self.expr(cx, pt, 1), P_TERN)
		cx.env[res] = rt
		return [f'{ind}def {name}({p}: {py_ty(pt)}) -> {py_ty(rt)}:'] + body + [ret, f'{ind}{res} = {name}({arg})']

	def lambda_stmt(self, cx: Ctx, ind: str) -> list[str]:
		cx.tags.add('lambda')
		self.uses_callable = True
		name = self.fresh('fn')
		pt, rt = self.pick([T_INT, T_STR]), self.pick([T_INT, T_BOOL, T_STR])
		p = self.fresh('p')
		inner = Ctx({n: t for n, t in cx.env.items() if t[0] in ('int', 'str', 'bool')}, cx.tags, 1, False, None, set(cx.env))
		inner.env[p] = pt
		body = self.wrap(self.expr(inner, rt, 2), P_TERN)
		cx.readonly.update(n for n in cx.env)
		res = self.fresh()
		arg = self.wrap(self.expr(cx, pt, 1), P_TERN)
		cx.env[res] = rt
		return [f'{ind}{name}: Callable[[{py_ty(pt)}], {py_ty(rt)}] = lambda {p}: {body}', f'{ind}{res} = {name}({arg})']

	# ---- top level --------------------------------------------------------------------
	def gen_enum(self) -> None:
		name = f'E{len(self.enums)}'
		members = [(f'M{i}', v) for i, v in enumerate(self.rnd.sample([1, 2, 3, 5, 8, 13, 21] + ([-4, -1] if self.on('enum-const-expr') else []), self.rnd.randint(2, 3)))]
		self.enums[name] = members

		def text(v: int) -> str:
			# member values as constant expressions: `E.M.value` is folded by the literal evaluator and pasted into the C++ text
			if not self.on('enum-const-expr') or self.chance(0.5):
				return str(v)
			return self.pick([f'{v - 1} + 1', f'{v + 2} - 2', f'({v + 2} - 2)', f'{v * 2} >> 1', f'{v} | 0', f'1 + {v - 3} + 2', f'{v} * 1', f'2 * {v} - {v}', f'-({-v})' if v > 0 else f'0 - {-v}'])
		self.lines += [f'class {name}(Enum):'] + [f'\t{m} = {text(v)}' for m, v in members] + ['']

	def gen_class(self, base: str | None) -> None:
		name = f'C{len(self.classes)}'
		r = self.rnd
		fields = [(f'f{len(self.classes)}{i}', self.pick([T_INT, T_INT, T_STR, T_BOOL, ('list', T_INT)])) for i in range(r.randint(1, 3))]
		info = {'fields': fields, 'methods': [], 'props': [], 'base': base, 'ctor': [], 'factory': None, 'inner': None}
		tags: set = set()
		k_cls = len(self.classes)
		lines = []
		helper = None
		if self.chance(0.3) and self.on('member-shadows-global'):
			# a module-level function and a class member of another type with the same name: bare names inside methods (also inside
			# nested blocks and comprehensions) mean the module-level one
			helper = f'h{k_cls}'
			ha = self.fresh('a')
			lines += [f'def {helper}({ha}: int) -> int:', f'\treturn {ha} + {self.pick(PRIMES)}', '']
			tags.add('member-shadows-global')
		lines += [f'class {name}({base}):' if base else f'class {name}:']
		if self.chance(0.4) and self.on('class-var'):
			# class-level variables (public and protected by their leading underscore), read through the class name
			info['class_vars'] = [(f'cv{k_cls}', T_INT), (f'_cw{k_cls}', T_STR)]
			lines.append(f'\tcv{k_cls}: ClassVar[int] = {self.pick(PRIMES)}')
			lines.append(f"\t_cw{k_cls}: ClassVar[str] = '{self.pick(['x', 'ab', ''])}'")
			self.uses_classvar = True
			tags.add('class-var')
		for f, t in fields:
			lines.append(f'\t{f}: {py_ty(t)}')
		lines.append('')
		if self.chance(0.3) and self.on('nested-class'):
			inner = f'I{k_cls}'
			info['inner'] = inner
			tags.add('nested-class')
			lines += [f'\tclass {inner}:', f'\t\tg{k_cls}: int', '', f'\t\tdef __init__(self, g{k_cls}: int) -> None:', f'\t\t\tself.g{k_cls} = g{k_cls}', '',
				f'\t\tdef mi{k_cls}(self) -> int:', f'\t\t\treturn self.g{k_cls} + {self.pick(PRIMES)}', '']
		# constructor
		params = [(f'a{i}', t) for i, (f, t) in enumerate(fields) if t[0] != 'list' or self.chance(0.5)]
		base_ctor = self.classes[base]['ctor'] if base else []
		bparams = [(f'b{i}', t) for i, (_, t) in enumerate(base_ctor)]
		all_params = bparams + params
		info['ctor'] = all_params
		lines.append(f'\tdef __init__(self{"".join(f", {p}: {py_ty(t)}" for p, t in all_params)}) -> None:')
		env = {p: t for p, t in all_params}
		cx = Ctx(env, tags, 1, False, None, set(env))
		if base:
			tags.add('inherit')
			lines.append(f'\t\tsuper().__init__({", ".join(p for p, _ in bparams)})')
		pmap = {f: p for (p, _), (f, t) in zip(params, [(f, t) for f, t in fields if any(pp[1] == t for pp in params)])}
		pi = 0
		for f, t in fields:
			src = None
			if pi < len(params) and params[pi][1] == t:
				src = params[pi][0]
				pi += 1
			if src is not None and self.chance(0.7):
				lines.append(f'\t\tself.{f} = {src}')
			else:
				# known finding: the member-initialiser re-parse (CppViewHelper.Initializer) only understands single-line values
				lines.append(f'\t\tself.{f} = {self.wrap(self.expr(cx, t, 1 if self.on("ctor-complex-init") else 0), 0)}')
		lines.append('')
		self.classes[name] = info
		# methods
		self_env = {}
		for mi in range(r.randint(1, 2)):
			mname = f'm{len(self.classes) - 1}{mi}'
			if base and self.classes[base]['methods'] and mi == 0 and self.chance(0.5) and self.on('override'):
				mname, mparams, ret = self.classes[base]['methods'][0]
				tags.add('override')
			else:
				mparams = [(self.fresh('q'), self.pick([T_INT, T_STR, T_BOOL])) for _ in range(r.randint(0, 2))]
				ret = self.pick([T_INT, T_INT, T_STR, T_BOOL])
			env = {p: t for p, t in mparams}
			mcx = Ctx(env, tags, 1, False, ret, set(env))
			body = self.method_body(mcx, name, ret)
			lines.append(f'\tdef {mname}(self{"".join(f", {p}: {py_ty(t)}" for p, t in mparams)}) -> {py_ty(ret)}:')
			lines += body + ['']
			info['methods'] = [m for m in info['methods'] if m[0] != mname] + [(mname, mparams, ret)]
		if self.chance(0.5) and self.on('property'):
			pname = f'p{len(self.classes) - 1}'
			ret = self.pick([T_INT, T_STR, T_BOOL])
			mcx = Ctx({}, tags, 1, False, ret, set())
			lines += ['\t@property', f'\tdef {pname}(self) -> {py_ty(ret)}:'] + self.method_body(mcx, name, ret) + ['']
			info['props'].append((pname, ret))
			tags.add('property-def')
		if self.chance(0.4) and self.on('classmethod') and all(t[0] != 'list' or True for _, t in all_params):
			fparams = [(f'z{i}', t) for i, (_, t) in enumerate(all_params[:1])]
			env = {p: t for p, t in fparams}
			mcx = Ctx(env, tags, 1, False, None, set(env))
			args = []
			for i, (_, t) in enumerate(all_params):
				args.append(fparams[0][0] if i == 0 and fparams else self.wrap(self.expr(mcx, t, 0), P_TERN))
			lines += ['\t@classmethod', f'\tdef make(cls{"".join(f", {p}: {py_ty(t)}" for p, t in fparams)}) -> \'{name}\':', f'\t\treturn cls({", ".join(args)})', '']
			info['factory'] = fparams
			tags.add('classmethod-def')
		if helper:
			q, v, i, e = self.fresh('q'), self.fresh(), self.fresh('i'), self.fresh('e')
			w = self.fresh()
			lines += [f'\tdef {helper}(self) -> str:', f"\t\treturn '{self.pick(['x', 'yz'])}'", '',
				f'\tdef mc{k_cls}(self, {q}: int) -> int:', f'\t\t{v} = 0', f'\t\tif {q} > 0:', f'\t\t\t{v} = {helper}({q})', f'\t\tfor {i} in range(2):', f'\t\t\t{v} += {helper}({i})',
				f'\t\t{w} = [{helper}({e}) for {e} in range(2)]', f'\t\treturn {v} + {w}[0]', '']
			info['methods'] = info['methods'] + [(f'mc{k_cls}', [(q, T_INT)], T_INT)]
		self.lines += lines
		self.class_tags = getattr(self, 'class_tags', set()) | tags

	def method_body(self, cx: Ctx, cname: str, ret) -> list[str]:
		"""Expression over self fields and parameters."""
		self.dead = []
		for f, t in self.all_fields(cname):
			cx.env[f'self.{f}'] = t
			cx.readonly.add(f'self.{f}')
		for f, t in self.classes[cname].get('class_vars', []):
			cx.env[f'{cname}.{f}'] = t
			cx.readonly.add(f'{cname}.{f}')
		out: list[str] = []
		if self.chance(0.4):
			out += self.stmt(cx, '\t\t')
		out.append(f'\t\treturn {self.wrap(self.expr(cx, ret, 2), 0)}')
		return out

	def gen_func(self, entry: bool) -> None:
		r = self.rnd
		self.dead = []
		name = f'f{len(self.funcs)}'
		nparams = r.randint(1, 3)
		params = []
		for i in range(nparams):
			t = self.value_type(1) if entry else self.pick([T_INT, T_INT, T_STR, T_BOOL, ('list', T_INT)])
			default = None
			if not entry and i == nparams - 1 and t[0] in ('int', 'str', 'bool') and self.chance(0.4) and self.on('default-arg'):
				default = self.sample_value(t)
			params.append((self.fresh('a'), t, default))
		ret = self.pick([T_INT, T_INT, T_INT, T_BOOL, T_STR, T_FLOAT, ('list', T_INT), ('dict', T_STR, T_INT), ('tuple', T_INT, T_STR), ('list', T_STR)])
		if self.classes and self.chance(0.15) and self.on('return-object') and entry:
			ret = ('class', self.pick(sorted(self.classes)))
		tags: set = set()
		env = {p: t for p, t, _ in params}
		cx = Ctx(env, tags, 2, False, ret, set())
		body: list[str] = []
		for _ in range(r.randint(2, 3 + 2 * self.size)):
			body += self.stmt(cx, '\t')
		body.append(f'\treturn {self.wrap(self.expr(cx, ret, 2), 0)}')
		sig = ', '.join(f'{p}: {py_ty(t)}' + (f' = {py_lit(dv)}' if dv is not None else '') for p, t, dv in params)
		self.lines += [f'def {name}({sig}) -> {py_ty(ret)}:'] + body + ['']
		self.funcs.append((name, params, ret, tags))

	def gen_container_func(self) -> None:
		"""Container/str operation probe: a random sequence of list, dict and str operations (each guarded so that it stays inside the
		domain) whose every result is appended to the returned list — nothing the emitted code computes stays unobserved."""
		r = self.rnd
		name = f'f{len(self.funcs)}'
		xs, d, s_, n = (self.fresh('a') for _ in range(4))
		params = [(xs, ('list', T_INT), None), (d, ('dict', T_STR, T_INT), None), (s_, T_STR, None), (n, T_INT, None)]
		tags = {'container-probe'}
		out = self.fresh('v')
		body = [f'\t{out}: list[int] = []']

		def key() -> str:
			return self.pick(["'a'", "'b'", "'zz'"])

		def small() -> str:
			return self.pick([n, '1', '7', f'{n} + 1', f'int(len({s_}))'])

		def op() -> list[str]:
			c = r.randint(0, 40) if self.force_op is None else self.force_op
			v = self.fresh()
			k = key()
			if c == 0:
				return [f'\tif len({xs}) > 0:', f'\t\t{v} = {xs}.pop(0)', f'\t\t{out}.append({v})']
			if c == 1:
				return [f'\tif len({xs}) > 1:', f'\t\t{v} = {xs}.pop(1)', f'\t\t{out}.append({v})']
			if c == 2:
				return [f'\tif len({xs}) > 0:', f'\t\t{out}.append({xs}.pop())']
			if c == 3:
				return [f'\t{xs}.insert(0, {small()})', f'\t{out}.append({xs}[0])']
			if c == 4:
				return [f'\tif len({xs}) > 0:', f'\t\t{xs}.insert(1, {small()})', f'\t\t{out}.append({xs}[1])']
			if c == 5:
				return [f'\t{v} = {xs}.copy()', f'\t{v}.append({small()})', f'\t{out}.append(len({v}) * 10 + len({xs}))']
			if c == 6:
				return [f'\tif len({xs}) > 0:', f'\t\t{out}.append({xs}[len({xs}) - 1])']
			if c == 7:
				return [f'\tif len({xs}) > 1:', f'\t\t{v} = {xs}[:len({xs}) - 1]', f'\t\t{out}.append(len({v}) * 100 + {v}[0])']
			if c == 8:
				return [f'\tif len({xs}) > 1:', f'\t\t{v} = {xs}[1:]', f'\t\t{out}.append({v}[0])']
			if c == 9:
				return [f'\t{xs}.append({small()})', f'\t{out}.append(len({xs}))']
			if c == 10:
				return [f'\t{out}.append(int({small()} in {xs}) * 2 + int({small()} not in {xs}))']
			if c == 11:
				return [f'\tif {k} in {d}:', f'\t\t{v} = {d}.pop({k})', f'\t\t{out}.append({v})']
			if c == 12:
				return [f'\tif {k} in {d}:', f'\t\tdel {d}[{k}]', f'\t{out}.append(len({d}))']
			if c == 13:
				return [f'\t{v} = {d}.copy()', f'\t{v}[{k}] = {small()}', f'\t{out}.append(len({v}) * 10 + len({d}))']
			if c == 14:
				return [f'\t{v} = list({d}.keys())', f'\t{out}.append(len({v}))']
			if c == 15:
				return [f'\t{v} = list({d}.values())', f'\tif len({v}) > 0:', f'\t\t{out}.append({v}[0])']
			if c == 16:
				return [f'\tif {k} in {d}:', f'\t\t{d}[{key()}] = {d}[{k}] + 1', f'\t\t{d}[{k}] += 5', f'\t\t{out}.append({d}[{k}])']
			if c == 17:
				k2, v2 = self.fresh('k'), self.fresh('x')
				return [f'\tfor {k2}, {v2} in {d}.items():', f'\t\t{out}.append(len({k2}) * 100 + {v2})']
			if c == 18:
				k2, v2 = self.fresh('k'), self.fresh('x')
				return [f'\t{v} = [{v2} + len({k2}) for {k2}, {v2} in {d}.items()' + self.pick(['', f' if {v2} > 0']) + ']', f'\t{out}.append(len({v}))', f'\tif len({v}) > 0:', f'\t\t{out}.append({v}[0])']
			if c == 19:
				v2 = self.fresh('x')
				return [f'\t{v} = [{v2} * 2 for {v2} in {d}.values()]', f'\tif len({v}) > 0:', f'\t\t{out}.append({v}[0])']
			if c == 20:
				k2 = self.fresh('k')
				return [f'\t{v} = {{{k2}: len({k2}) for {k2} in {d}.keys()}}', f'\t{out}.append(len({v}))']
			if c == 21:
				return [f'\tif len({s_}) > 0:', f'\t\t{v} = {s_}[0:1] + {s_}[len({s_}) - 1:]', f'\t\t{out}.append(len({v}) + int({v} == {self.pick(["\'aa\'", "\'ab\'", "\'xx\'"])}))']
			if c == 22:
				return [f'\tif len({s_}) > 1:', f'\t\t{v} = {s_}[1:len({s_}) - 1]', f'\t\t{out}.append(len({v}))']
			if c == 23:
				return [f'\t{v} = {s_} + {s_}', f'\t{out}.append(len({v}))']
			if c == 24:
				return [f"\t{out}.append(int({s_} < 'b') + int({s_} == 'ab') * 2 + int({s_} != 'x') * 4)"]
			if c == 25:
				return [f"\t{out}.append({s_}.find('a') + {s_}.rfind('a') * 10)"]
			if c == 26:
				return [f"\tif len({s_}) > 1:", f"\t\t{out}.append({s_}.find('a', 1))"]
			if c == 27:
				return [f"\t{out}.append(int({s_}.startswith('a')) + int({s_}.endswith('b')) * 2)"]
			if c == 28:
				return [f'\t{out}.append(min({n}, {small()}) + max({n}, 3) * 10 + abs({n} - 5) * 100)']
			if c == 29:
				return [f'\t{out}.append(1 if {n} > 5 else 2 if {n} > 2 else 3)']
			if c == 30 and self.on('list-comp'):
				x2, y2 = self.fresh('x'), self.fresh('y')
				return [f'\t{v} = [[{x2} * {y2} for {y2} in {xs}] for {x2} in {xs}]', f'\t{out}.append(len({v}))', f'\tif len({v}) > 0:', f'\t\t{out}.append({v}[len({v}) - 1][0])']
			if c == 31:
				return [f'\t{d}.clear()' if self.chance(0.3) else f'\t{xs}.clear()', f'\t{out}.append(len({d}) * 10 + len({xs}))']
			if c == 32:
				return [f'\t{n} {self.pick(["*=", "-=", "^=", "|=", "&=", "+="])} {self.pick(["3", "5", "6"])}', f'\t{out}.append({n})']
			if c == 34:
				# slices whose bounds are expressions, not literals (start > 0 and end < len for some calls)
				w = self.pick(['1', '2'])
				return [f'\tif {n} >= 0 and {n} + {w} <= int(len({s_})):', f'\t\t{v} = {s_}[{n}:{n} + {w}]', f"\t\t{out}.append(len({v}) * 10 + int({v} == 'a') + int({v} == 'ab') * 2)"]
			if c == 35:
				return [f'\tif {n} >= 0 and {n} + 1 <= int(len({xs})):', f'\t\t{v} = {xs}[{n}:{n} + 1]', f'\t\t{out}.append(len({v}) * 100 + {v}[0])']
			if c == 37:
				# augmented assignment to an element with a compound right-hand side (Python: target op= (rhs))
				op, rhs = self.pick([('-=', f'{n} - 1'), ('-=', f'{n} + 2'), ('*=', f'{n} + 1'), ('*=', f'2 - {n}'), ('&=', f'{n} | 1'), ('^=', f'{n} & 6'), ('+=', f'1 if {n} > 1 else 2'), ('-=', f'-{n}')])
				return [f'\tif len({xs}) > 0:', f'\t\t{xs}[0] {op} {rhs}', f'\t\t{out}.append({xs}[0])']
			if c == 39:
				# range() with computed bounds and a computed positive step, also one written as a negated expression
				i3 = self.fresh('i')
				head = self.pick([f'range({n} + 1, {n} + 4)', f'range(int(len({xs})))', f'range(0, 6, -({n} - 7))', f'range({n}, {n} + 5, 1 + int(len({s_})))', f'range(1, 7, 7 - {n})'])
				return [f'\tif {n} < 7 and {n} > -3:', f'\t\tfor {i3} in {head}:', f'\t\t\t{out}.append({i3})']
			if c == 40 and self.on('list-comp'):
				i3 = self.fresh('i')
				return [f'\tif {n} < 7 and {n} > -3:', f'\t\t{v} = [{i3} * 2 for {i3} in range({n}, {n} + 3)]', f'\t\t{out}.append(len({v}) * 100 + {v}[0])']
			if c == 38:
				op, rhs = self.pick([('-=', f'{n} - 1'), ('*=', f'{n} + 1'), ('-=', f'3 - {n} - 1'), ('+=', f'{n} if {n} > 0 else -{n}')])
				return [f'\tif {k} in {d}:', f'\t\t{d}[{k}] {op} {rhs}', f'\t\t{out}.append({d}[{k}])']
			if c == 36:
				return [f'\tif {n} >= 0 and {n} <= int(len({s_})):', f'\t\t{v} = {s_}[{n}:]', f'\t\t{out}.append(len({v}))', f'\t\t{v} = {s_}[:{n}]', f'\t\t{out}.append(len({v}))']
			i2 = self.fresh('i')
			return [f'\t{i2} = 0', f'\twhile True:', f'\t\t{i2} += 1', f'\t\tif {i2} > {self.pick(["3", "5"])}:', f'\t\t\tbreak', f'\t\tif {i2} % 2 == 0:', f'\t\t\tcontinue', f'\t\t{out}.append({i2})']

		for _ in range(r.randint(3, 7)):
			body += op()
		body.append(f'\treturn {out}')
		sig = ', '.join(f'{p}: {py_ty(t)}' for p, t, _ in params)
		self.lines += [f'def {name}({sig}) -> list[int]:'] + body + ['']
		self.funcs.append((name, params, ('list', T_INT), tags))
		ds = [{'a': 5, 'b': 0}, {}, {'b': -3, 'zz': 1}, {'a': -1}]
		xss = [[], [1], [0, 2], [3, -1, 4]]
		# three vectors that put indices strictly inside the sequences (start > 0, end < len), then random ones
		self.fixed_calls[name] = [[[3, -1, 4], {'a': 5, 'b': 0}, 'xaab', 1], [[0, 2, 7, 1], {'b': -3, 'zz': 1}, 'abcab', 2], [[1], {'a': -1}, 'ab', 0]] + \
			[[self.pick(xss), self.pick(ds), self.pick(['a', 'b', '', 'ab', 'xaab']), self.pick([-1, 0, 1, 2, 3, 6])] for _ in range(3)]

	def gen_iterator(self) -> None:
		"""A class in the classic iterator-protocol style (__iter__ returns the object, __next__ the elements) used by a for loop and a
		comprehension: the element type is the one of __next__ (typed and run under CPython; not transpiled)."""
		k = len(self.funcs)
		name = f'f{k}'
		a, acc, x, ys, y = self.fresh('a'), self.fresh(), self.fresh('x'), self.fresh(), self.fresh('y')
		self.lines += [f'class IT{k}:', '\tn: int', '', '\tdef __init__(self, n: int) -> None:', '\t\tself.n = n', '', f"\tdef __iter__(self) -> 'IT{k}':", '\t\treturn self', '',
			'\tdef __next__(self) -> int:', '\t\tif self.n <= 0:', '\t\t\traise StopIteration()', '\t\tself.n = self.n - 1', '\t\treturn self.n', '',
			f'def {name}({a}: int) -> int:', f'\t{acc} = 0', f'\tfor {x} in IT{k}({a}):', f'\t\t{acc} = {acc} + {x}', f'\t{ys} = [{y} for {y} in IT{k}(2)]', f'\treturn {acc} + len({ys})', '']
		self.funcs.append((name, [(a, T_INT, None)], T_INT, {'iterator-class'}))
		self.fixed_calls[name] = [[3], [0]]

	def gen_wide_func(self) -> None:
		"""A function with 11-13 parameters, two or more of them of generic type at positions that are far apart (#1 and #10+): the flattened
		attribute paths of its symbol (0, 1, 1.0, ..., 10, 10.0, 11, ...) are ordered and grouped by the symbol serializer."""
		r = self.rnd
		name = f'f{len(self.funcs)}'
		n = r.randint(11, 13)
		generic = [('list', T_INT), ('list', T_STR), ('dict', T_STR, T_INT), ('tuple', T_INT, T_STR), ('dict', T_INT, ('list', T_INT))]
		types = [self.pick([T_INT, T_STR, T_BOOL, T_FLOAT]) for _ in range(n)]
		types[self.pick([0, 1, 2])] = self.pick(generic)
		types[self.pick([9, 10, n - 1])] = self.pick(generic)
		if self.chance(0.5):
			types[r.randint(3, 8)] = self.pick(generic)
		params = [(self.fresh('a'), t, None) for t in types]
		ints = [p for p, t, _ in params if t == T_INT]
		seqs = [p for p, t, _ in params if t[0] in ('list', 'dict', 'str')]
		body = ' + '.join(ints[:3] + [f'int(len({p}))' for p in seqs[:3]]) or '0'
		sig = ', '.join(f'{p}: {py_ty(t)}' for p, t, _ in params)
		self.lines += [f'def {name}({sig}) -> int:', f'\treturn {body}', '']
		self.funcs.append((name, params, T_INT, {'wide-signature'}))

	def gen_optional_func(self) -> None:
		"""Optional values in both member orders (None | T and T | None), looked through by subscript, iteration, len and attribute access
		after an `is not None` test (outside C01's domain: the C++ side has no None)."""
		name = f'f{len(self.funcs)}'
		a, b = self.fresh('a'), self.fresh('a')
		v1, v2, v3, v4, r_, e = self.fresh(), self.fresh(), self.fresh(), self.fresh(), self.fresh(), self.fresh('e')
		body = [f'\t{v1} = None if {b} else [{a}, 1]', f'\t{v2} = [{a}] if {b} else None', f'\t{v3}: dict[str, int] | None = None', f'\t{v4}: None | list[int] = [{a}]', f'\t{r_} = 0',
			f'\tif {v1} is not None:', f'\t\t{r_} += {v1}[0]', f'\t\tfor {e} in {v1}:', f'\t\t\t{r_} += {e}',
			f'\tif {v2} is not None:', f'\t\t{r_} += {v2}[0] + len({v2})',
			f'\tif {v3} is None:', f"\t\t{v3} = {{'k': {a}}}", f"\t{r_} += {v3}['k']",
			f'\tif {v4} is not None:', f'\t\t{r_} += {v4}[0]']
		# both branches of one class with other type arguments: the value is of either type
		v5, v6, v7 = self.fresh(), self.fresh(), self.fresh()
		body += self.pick([[f'\t{v5} = [{a}] if {b} else [1.5]', f'\t{r_} += len({v5})'], [f"\t{v6} = {{'k': {a}}} if {b} else {{{a}: 'k'}}", f'\t{r_} += len({v6})'],
			[f"\t{v7} = ({a}, 's') if {b} else ('s', {a})", f'\t{r_} += len({v7})'], []])
		body += [f'\treturn {r_}']
		self.rnd.shuffle(body[:0])
		self.lines += [f'def {name}({a}: int, {b}: bool) -> int:'] + body + ['']
		self.funcs.append((name, [(a, T_INT, None), (b, T_BOOL, None)], T_INT, {'optional'}))
		self.fixed_calls[name] = [[3, True], [4, False]]

	def gen_inner_func(self, cname: str) -> None:
		"""Uses the class nested in `cname` through its qualified name, with inferred declarations and as a list element type."""
		k = int(cname[1:])
		inner = self.classes[cname]['inner']
		name = f'f{len(self.funcs)}'
		a = self.fresh('a')
		o, ws, v = self.fresh('o'), self.fresh(), self.fresh()
		body = [f'\t{o} = {cname}.{inner}({a})', f'\t{ws} = [{cname}.{inner}(1), {cname}.{inner}({a} + 1)]', f'\t{v} = {ws}[1]',
			f'\treturn {o}.mi{k}() + {v}.g{k} * 10 + len({ws}) * 100']
		self.lines += [f'def {name}({a}: int) -> int:'] + body + ['']
		self.funcs.append((name, [(a, T_INT, None)], T_INT, {'nested-class'}))

	def exc_class(self, cx: Ctx) -> str:
		"""RuntimeError or the program's own subclass of it (raise and except sites choose independently: a handler for the subclass lets the base through)."""
		if self.exc and self.chance(0.5):
			cx.tags.add('exception-subclass')
			return self.exc
		return 'RuntimeError'

	def gen_generic(self) -> None:
		"""A user generic class and a function that instantiates it with several type arguments in one body: attribute / method types
		depend on the receiver's type arguments, not on the class alone."""
		self.gen_generic_func(self.gen_generic_class())

	def gen_generic_class(self) -> str:
		k = len(self.generics)
		g, tv = f'G{k}', f'T_G{k}'
		self.generics[g] = tv
		self.uses_callable = True
		self.lines += [f"{tv} = TypeVar('{tv}')", '', f'class {g}(Generic[{tv}]):', f'\tg{k}0: {tv}', f'\tg{k}1: list[{tv}]', '',
			f'\tdef __init__(self, a0: {tv}) -> None:', f'\t\tself.g{k}0 = a0', f'\t\tself.g{k}1 = [a0]', '',
			f'\tdef mg{k}0(self) -> {tv}:', f'\t\treturn self.g{k}0', '',
			f'\tdef mg{k}1(self, q1: {tv}) -> list[{tv}]:', f'\t\tself.g{k}1.append(q1)', f'\t\treturn self.g{k}1', '',
			f'\tdef mg{k}2(self, q1: Callable[[{tv}], int]) -> int:', f'\t\treturn q1(self.g{k}0) + 1', '']
		if self.chance(0.5) and self.on('generic-forward-ref'):
			# signatures that instantiate the generic class again, the second time with a class of this module that is declared
			# later and named through a string forward reference (declaration order: outside C01's domain)
			self.class_tags = getattr(self, 'class_tags', set()) | {'generic-forward-ref'}
			a1, a2, z = self.fresh('a'), self.fresh('a'), f'z{k}'
			self.lines += [f'def wg{k}({a1}: int) -> {g}[int]:', f'\treturn {g}({a1})', '',
				f"def wl{k}({a2}: int) -> '{g}[L{k}]':", f'\treturn {g}(L{k}({a2}))', '',
				f"def wd{k}({a2}: int) -> 'dict[str, {g}[{g}[L{k}]]]':", f"\treturn {{'k': {g}({g}(L{k}({a2})))}}", '',
				f'class L{k}:', f'\t{z}: int', '', f'\tdef __init__(self, {z}: int) -> None:', f'\t\tself.{z} = {z}', '']
		return g

	def gen_generic_func(self, g: str) -> None:
		r = self.rnd
		k = int(g[1:])
		self.uses_callable = True
		name = f'f{len(self.funcs)}'
		pa, pb, pc = self.fresh('a'), self.fresh('a'), self.fresh('a')
		params = [(pa, T_INT, None), (pb, T_STR, None), (pc, T_FLOAT, None)]
		tags = {'generic-class'}
		src = {'int': [f'{pa}', f'{pa} + 1', '7'], 'str': [f'{pb}', f"{pb} + 'x'"] + (["'k'"] if self.on('str-literal-concat') else []), 'float': [pc]}  # a bare literal is a C string literal in the output (root cause of the listed str-literal findings)
		objs: list[tuple[str, str]] = []
		body: list[str] = []
		acc: list[str] = []   # string-valued pieces of the result
		order = [self.pick(['int', 'str', 'float']) for _ in range(r.randint(2, 4))]
		if len(set(order)) == 1:
			order.append('str' if order[0] != 'str' else 'int')
		for t in order:
			o = self.fresh('o')
			if self.chance(0.25) and t != 'float':
				body.append(f'\t{o}: {g}[{t}] = {g}({self.pick(src[t])})')
			else:
				body.append(f'\t{o} = {g}({self.pick(src[t])})')
			objs.append((o, t))
			for _ in range(r.randint(0, 2)):
				o2, t2 = self.pick(objs)
				c = r.randint(0, 5)
				v = self.fresh()
				lit = {'int': '3', 'str': "'q'", 'float': pc}[t2]
				def text(x: str) -> str:
					return x if t2 == 'str' else (f'str({x})' if t2 == 'int' else f'str(int({x}))')
				if c == 0:
					body.append(f'\t{v} = {o2}.g{k}0')
					acc.append(text(v))
				elif c == 1:
					# derived scalars at once: a kept list would alias the object's field in Python and be a copy in C++
					body.append(f'\t{v} = len({o2}.g{k}1)')
					acc.append(f'str({v})')
					v = self.fresh()
					body.append(f'\t{v} = {o2}.g{k}1[0]')
					acc.append(text(v))
				elif c == 2:
					body.append(f'\t{v} = {o2}.mg{k}0()')
					acc.append(text(v))
				elif c == 3:
					body.append(f'\t{v} = len({o2}.mg{k}1({lit}))')
					acc.append(f'str({v})')
				elif c == 5:
					# the lambda's parameter type is the receiver's type argument
					pl = self.fresh('p')
					fn = {'int': f'{pl} + 2', 'str': f'len({pl})', 'float': f'int({pl}) + 1'}[t2]
					body.append(f'\t{v} = {o2}.mg{k}2(lambda {pl}: {fn})')
					acc.append(f'str({v})')
				else:
					op = {'int': f'{o2}.g{k}0 + 2', 'str': f"{o2}.g{k}0 + 'y'", 'float': f'{o2}.g{k}0 + {pc}'}[t2]
					body.append(f'\t{v} = {op}')
					acc.append(text(v))
		o2, t2 = self.pick(objs)
		pl, v = self.fresh('p'), self.fresh()
		body.append(f'\t{v} = {o2}.mg{k}2(lambda {pl}: ' + {'int': f'{pl} + 2', 'str': f'len({pl})', 'float': f'int({pl}) + 1'}[t2] + ')')
		acc.append(f'str({v})')
		o2, t2 = self.pick(objs)
		acc.append(f'{o2}.mg{k}0()' if t2 == 'str' else (f'str({o2}.mg{k}0())' if t2 == 'int' else f'str(int({o2}.mg{k}0()))'))
		body.append("\treturn " + " + ',' + ".join(acc))
		sig = ', '.join(f'{p}: {py_ty(t)}' for p, t, _ in params)
		self.lines += [f'def {name}({sig}) -> str:'] + body + ['']
		self.funcs.append((name, params, T_STR, tags))
		self.fixed_calls[name] = [[self.pick([0, 1, -4, 12]), self.pick(['', 'a', 'zq']), self.pick([0.5, 2.0, -1.25])] for _ in range(3)]

	def gen_probe_func(self) -> None:
		"""Operand-position probe: expressions whose C++ form is a compound expression (conditional, call chain, negation, find)
		used directly as the operand of every operator class, with every value returned (nothing the emitted code computes is unobserved)."""
		r = self.rnd
		name = f'f{len(self.funcs)}'
		d, xs, k, n, b, s_ = (self.fresh('a') for _ in range(6))
		params = [(d, ('dict', T_STR, T_INT), None), (xs, ('list', T_INT), None), (k, T_STR, None), (n, T_INT, None), (b, T_BOOL, None), (s_, T_STR, None)]
		tags = {'operand-probe'}

		def key():
			return self.pick([k, "'a'", "'b'"])

		def inner_int():
			c = r.randint(0, 5)
			if c <= 2 and self.on('dict-get'):
				tags.add('dict-get')
				return (f'{d}.get({key()}, {self.pick(["0", "-1", "7"])})', P_ATOM)
			if c == 3:
				return (f'int({b})', P_ATOM)
			if c == 4:
				return (f'{xs}[0]', P_ATOM)
			return (n, P_ATOM)

		def inner_bool():
			c = r.randint(0, 8)
			if c == 0:
				return (f'{key()} in {d}', P_CMP)
			if c == 1:
				return (f'{key()} not in {d}', P_CMP)
			if c == 2:
				return (f'{n} in {xs}', P_CMP)
			if c == 3:
				return (f'{n} not in {xs}', P_CMP)
			if c == 4:
				return (f'not {b}', P_NOT)
			if c == 5:
				return (f"{s_} == 'a'", P_CMP)
			if c == 6:
				return (f"{s_}.startswith('a')", P_ATOM)
			if c == 7:
				return (f'{b} and {n} > 0', P_AND)
			return (f'{b} or {n} > 0', P_OR)

		def ctx_int(e):
			c = r.randint(0, 11)
			w = lambda need: self.wrap(e, need)
			if c == 0:
				return ((f'-{w(P_UNARY)}', P_UNARY), 'int') if not e[0].startswith(('-', '~')) else ((f'-({e[0]})', P_UNARY), 'int')
			if c == 1:
				return ((f'~{w(P_UNARY)}', P_UNARY), 'int') if not e[0].startswith(('-', '~')) else ((f'~({e[0]})', P_UNARY), 'int')
			if c == 2:
				return ((f'{w(P_ADD)} + 1', P_ADD), 'int')
			if c == 3:
				return ((f'1 - {w(P_ADD + 1)}', P_ADD), 'int')
			if c == 4:
				return ((f'{w(P_MUL)} * 2', P_MUL), 'int')
			if c == 5:
				return ((f'{w(P_BAND)} & 3', P_BAND), 'int')
			if c == 6:
				return ((f'{w(P_CMP + 1)} {self.pick(["==", "!=", "<", ">="])} {self.pick(["0", "1", "5", f"({n} - 1)", f"int({b})", f"({n} & 3)"])}', P_CMP), 'bool')
			if c == 7:
				return ((f'{self.pick([n, f"({n} + 1)", f"({n} | 1)"])} > {w(P_CMP + 1)}', P_CMP), 'bool')
			if c == 8:
				return ((f'7 if {w(P_TERN + 1)} else 3', P_TERN), 'int')
			if c == 9:
				return ((f'not {w(P_NOT)}', P_NOT), 'bool')
			if c == 10:
				return ((f'{w(P_TERN + 1)} if {b} else 3', P_TERN), 'int')
			return ((f'3 if {b} else {w(P_TERN)}', P_TERN), 'int')

		def ctx_bool(e):
			c = r.randint(0, 6)
			w = lambda need: self.wrap(e, need)
			if c == 0:
				return ((f'not {w(P_NOT)}', P_NOT), 'bool')
			if c == 1:
				return ((f'{w(P_AND)} and {b}', P_AND), 'bool')
			if c == 2:
				return ((f'{b} or {w(P_OR + 1)}', P_OR), 'bool')
			if c == 3:
				return ((f'{w(P_CMP + 1)} == {b}', P_CMP), 'bool')
			if c == 4:
				return ((f'int({w(P_TERN)})', P_ATOM), 'int')
			if c == 5:
				return ((f'1 if {w(P_TERN + 1)} else 2', P_TERN), 'int')
			return ((f'{w(P_TERN + 1)} if {b} else False', P_TERN), 'bool')

		elems = []
		for _ in range(r.randint(3, 5)):
			e, t = (inner_int(), 'int') if self.chance(0.6) else (inner_bool(), 'bool')
			for _ in range(r.randint(1, 3)):
				if self.chance(0.3):
					e = (f'({e[0]})', P_ATOM)  # redundant parentheses: a group as an operand
				e, t = ctx_int(e) if t == 'int' else ctx_bool(e)
			elems.append(self.wrap(e, P_TERN + 1) if t == 'int' else f'int({e[0]})')
		ret = ('list', T_INT)
		sig = ', '.join(f'{p}: {py_ty(t)}' for p, t, _ in params)
		self.lines += [f'def {name}({sig}) -> {py_ty(ret)}:', f'\treturn [{", ".join(elems)}]', '']
		self.funcs.append((name, params, ret, tags))
		ds = [{'a': 5, 'b': 0}, {}, {'b': -3, 'c': 1}, {'a': -1}]
		xss = [[1], [0, 2], [3, -1, 4]]
		self.fixed_calls[name] = [[self.pick(ds), self.pick(xss), self.pick(['a', 'b', 'zz']), self.pick([-1, 0, 1, 2, 3]), self.chance(0.5), self.pick(['a', '', 'ab'])] for _ in range(5)]

	def program(self) -> dict:
		r = self.rnd
		if self.chance(0.6) and self.on('enum'):
			self.gen_enum()
		if self.chance(0.3) and self.on('exception-subclass'):
			self.exc = 'X0'
			self.lines += ['class X0(RuntimeError):', '\tpass', '']
		ncls = r.randint(0, 2) if self.on('class') else 0
		for i in range(ncls):
			base = None
			if i > 0 and self.chance(0.6) and self.on('inherit'):
				base = f'C{i - 1}'
			self.gen_class(base)
		nfun = r.randint(2, 4)
		for i in range(nfun):
			self.gen_func(entry=(i >= nfun - 2) or self.chance(0.3))
		for cname in sorted(self.classes):
			if self.classes[cname].get('inner'):
				self.gen_inner_func(cname)
		if self.chance(0.4) and self.on('operand-probe'):
			self.gen_probe_func()
		if self.chance(self.p_generic) and self.on('generic-class'):
			g = self.gen_generic_class()
			if not self.generic_class_only:
				self.gen_generic_func(g)
		if self.chance(0.4) and self.on('container-probe'):
			self.gen_container_func()
		if self.chance(0.25) and self.on('optional'):
			self.gen_optional_func()
		if self.chance(0.25) and self.on('wide-signature'):
			self.gen_wide_func()
		if self.chance(0.2) and self.on('iterator-class'):
			self.gen_iterator()
		header = ['from enum import Enum'] if self.enums else []
		if self.generics:
			header.append('from typing import Generic, TypeVar')
		if self.uses_classvar:
			header.append('from typing import ClassVar')
		if self.uses_callable:
			header.append('from collections.abc import Callable')
		source = '\n'.join(header + [''] + self.lines) + '\n'
		calls = []
		for name, params, ret, tags in self.funcs:
			if any(t[0] in ('class', 'enum', 'callable') for _, t, _ in params):
				continue
			for vals in self.fixed_calls.get(name) or [[self.sample_value(t) for _, t, _ in params] for _ in range(r.randint(2, 4))]:
				calls.append({'func': name, 'py': f'{name}({", ".join(py_lit(v) for v in vals)})', 'cpp': f'{name}({", ".join(cpp_lit(v, t) for v, (_, t, _) in zip(vals, params))})'})
		fields = {c: [f for f, _ in self.all_fields(c)] for c in self.classes}
		shows = []
		for c in self.classes:
			parts = ' + ", " + '.join(f'std::string("{f}=") + show(v.{f})' for f in fields[c]) or 'std::string("")'
			shows.append(f'inline std::string show(const {c}& v) {{ return std::string("{c}{{") + {parts} + "}}"; }}')
		for e in self.enums:
			shows.append(f'inline std::string show({e} v) {{ return show(static_cast<int>(v)); }}')
		tags = {f[0]: sorted(f[3]) for f in self.funcs}
		alltags = set().union(*[f[3] for f in self.funcs]) | getattr(self, 'class_tags', set())
		return {'source': source, 'calls': calls, 'fields': fields, 'shows': shows, 'func_tags': tags, 'tags': sorted(alltags),
			'classes': sorted(self.classes), 'enums': sorted(self.enums), 'exceptions': ({'X0': 'X0'} if self.exc else {}) | {'std::runtime_error': 'RuntimeError'}}


def gen_program(rnd, exclude: set | None = None, size: int = 2) -> dict:
	return ProgGen(rnd, exclude, size).program()


def gen_two_modules(rnd, exclude: set | None = None, name_a: str = 'mod_a', name_b: str = 'mod_b', p_generic: float = 0.3, name_c: str | None = None) -> dict:
	"""Module A (classes, enum, functions, generic class, module-level variables) and module B that imports A's definitions and uses them.
	With name_c a second, independent importer C of A is generated and A only *defines* its generic class."""
	ga = ProgGen(rnd, exclude, size=1)
	ga.p_generic = p_generic
	ga.generic_class_only = name_c is not None
	pa = ga.program()
	imported = sorted(ga.classes) + sorted(ga.enums) + [f[0] for f in ga.funcs] + sorted(ga.generics)
	# module-level variables of A (library types and classes of A itself), imported and read by the importers
	consts: list[tuple[str, str]] = []
	extra_a: list[str] = []
	if ga.on('module-var'):
		for i, (text, kind) in enumerate([(str(rnd.randint(1, 9)), 'int'), (py_lit(rnd.choice(['ab', 'x', ''])), 'str'), ('[1, 2]', 'list')]):
			if rnd.random() < 0.6:
				name = f'K{len(consts)}'
				extra_a.append(f'{name}: {dict(int="int", str="str", list="list[int]")[kind]} = {text}' if rnd.random() < 0.5 else f'{name} = {text}')
				consts.append((name, kind))
		for cname in sorted(ga.classes):
			if rnd.random() < 0.7:
				args = ', '.join(py_lit(ga.sample_value(t)) for _, t in ga.classes[cname]['ctor'])
				name = f'K{len(consts)}'
				extra_a.append(f'{name}: {cname} = {cname}({args})' if rnd.random() < 0.5 else f'{name} = {cname}({args})')
				consts.append((name, 'obj'))
	source_a = pa['source'] + ('\n' + '\n'.join(extra_a) + '\n' if extra_a else '')
	imported += [n for n, _ in consts]

	def importer(offset: int) -> tuple[str, list[str]]:
		gb = ProgGen(rnd, exclude, size=2)
		gb.n = ga.n + offset
		gb.classes = dict(ga.classes)
		gb.enums = dict(ga.enums)
		gb.funcs = list(ga.funcs)
		gb.generics = dict(ga.generics)
		nfun = rnd.randint(2, 3)
		start = len(gb.funcs)
		if gb.chance(0.6) and gb.classes:
			gb.gen_class(sorted(ga.classes)[-1])  # a class of the importer deriving from a class of A
		for i in range(nfun):
			gb.gen_func(entry=True)
		for g in sorted(ga.generics):
			if gb.chance(0.8):
				gb.gen_generic_func(g)  # other instantiations of A's generic class than A itself / the sibling importer uses first
		if consts:
			fname = f'f{len(gb.funcs)}'
			pa_ = gb.fresh('a')
			body = []
			acc = [pa_]
			for name, kind in consts:
				v = gb.fresh()
				body.append(f'\t{v} = {name}')
				acc.append({'int': v, 'str': f'len({v})', 'list': f'len({v})', 'obj': '1'}[kind])
			gb.lines += [f'def {fname}({pa_}: int) -> int:'] + body + [f'\treturn {" + ".join(acc)}', '']
			gb.funcs.append((fname, [(pa_, T_INT, None)], T_INT, {'module-var'}))
		header = ['from enum import Enum'] if gb.enums else []
		if gb.uses_callable:
			header.append('from collections.abc import Callable')
		header.append(f'from {name_a} import {", ".join(imported)}')
		return '\n'.join(header + [''] + gb.lines) + '\n', sorted(set().union(*[f[3] for f in gb.funcs[start:]]) | getattr(gb, 'class_tags', set()))

	source_b, tags = importer(100)
	out = {'a': source_a, 'b': source_b, 'name_a': name_a, 'name_b': name_b, 'tags': tags, 'imported': imported}
	if name_c is not None:
		out['c'], _ = importer(300)
		out['name_c'] = name_c
	return out
