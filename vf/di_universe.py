"""Importable universe for the C19 machine: symbol classes, and factories of three documented
shapes (class, function, bound method) whose leading parameters are annotated with universe
symbols and whose trailing parameters are annotated int/str.  Everything is a top-level
object so that by-name lazy registration (LazyDI.instantiate({'vf.di_universe.S0': 'vf.di_universe.f0'})) works.
"""
from typing import Generic, TypeVar

T = TypeVar('T')


class Produced:
	"""What every factory returns: remembers who made it and with what."""

	def __init__(self, factory: str, deps: tuple, rest: tuple) -> None:
		self.factory = factory
		self.deps = deps
		self.rest = rest

	def __repr__(self) -> str:
		return f'<{self.factory} deps={len(self.deps)} rest={self.rest}>'


class S0: pass
class S1: pass
class S2: pass
class S3: pass
class S4: pass
class G(Generic[T]): pass


# ---- function factories ---------------------------------------------------------------
def f0() -> Produced:
	return Produced('f0', (), ())


def f0b() -> Produced:
	return Produced('f0b', (), ())


def f1(a: S0) -> Produced:
	return Produced('f1', (a,), ())


def f2(a: S0, b: S1) -> Produced:
	return Produced('f2', (a, b), ())


def f2g(a: G[int], b: S1) -> Produced:
	return Produced('f2g', (a, b), ())


def f3(a: S2, b: S0, c: G) -> Produced:
	return Produced('f3', (a, b, c), ())


def fr1(a: S0, n: int) -> Produced:
	return Produced('fr1', (a,), (n,))


def fr2(a: S1, b: S0, n: int, s: str) -> Produced:
	return Produced('fr2', (a, b), (n, s))


def fr0(n: int) -> Produced:
	return Produced('fr0', (), (n,))


# ---- class factories ------------------------------------------------------------------
class K0(Produced):
	def __init__(self) -> None:
		super().__init__('K0', (), ())


class K1(Produced):
	def __init__(self, a: S0) -> None:
		super().__init__('K1', (a,), ())


class K2(Produced):
	def __init__(self, a: S1, b: S0) -> None:
		super().__init__('K2', (a, b), ())


class KR(Produced):
	def __init__(self, a: S1, s: str) -> None:
		super().__init__('KR', (a,), (s,))


# ---- bound-method factories -----------------------------------------------------------
class Maker:
	def __init__(self, tag: str) -> None:
		self.tag = tag

	def m0(self) -> Produced:
		return Produced('m0', (), ())

	def m1(self, a: S0) -> Produced:
		return Produced('m1', (a,), ())

	def m2(self, a: S2, b: S1) -> Produced:
		return Produced('m2', (a, b), ())

	def mr(self, a: S0, b: S2, n: int) -> Produced:
		return Produced('mr', (a, b), (n,))


_maker = Maker('m')
m0 = _maker.m0
m1 = _maker.m1
m2 = _maker.m2
mr = _maker.mr

SYMBOLS = [S0, S1, S2, S3, S4, G]
SYMBOL_NAMES = ['S0', 'S1', 'S2', 'S3', 'S4', 'G']

# name -> (callable, [parameter annotations as symbol index or 'int'/'str'])
FACTORIES: dict[str, tuple] = {
	'f0': (f0, []), 'f0b': (f0b, []), 'f1': (f1, [0]), 'f2': (f2, [0, 1]), 'f2g': (f2g, [5, 1]), 'f3': (f3, [2, 0, 5]),
	'fr1': (fr1, [0, 'int']), 'fr2': (fr2, [1, 0, 'int', 'str']), 'fr0': (fr0, ['int']),
	'K0': (K0, []), 'K1': (K1, [0]), 'K2': (K2, [1, 0]), 'KR': (KR, [1, 'str']),
	'm0': (m0, []), 'm1': (m1, [0]), 'm2': (m2, [2, 1]), 'mr': (mr, [0, 2, 'int']),
}
FACTORY_NAMES = sorted(FACTORIES)
