"""Common check machinery: sharded Hypothesis campaigns, failure buckets, known findings,
replay files and the evidence writer.  See DESIGN.md section 1.

A check module (checks/cNN_*.py) defines

  PROPERTY = 'Cnn'; LEVEL = 'exploration' | ...; RULE = '...'; ASSUMPTIONS = [...]
  def shard(ctx): ...           # runs inside one worker process, records into ctx
  def replay(case) -> list[(sig, detail)]      # re-run one saved case, bypassing Hypothesis
  optional: def known_probes() / BUDGET = {'quick': {...}, 'thorough': {...}}
"""
import contextlib
import hashlib
import json
import multiprocessing
import os
import sys
import time
import traceback
from collections import Counter
from typing import Any, Callable

from vf import env

EXIT_OK, EXIT_VIOLATION, EXIT_HARNESS = 0, 1, 2


class HarnessError(Exception):
	"""Something is wrong with the harness or its environment — never a verdict about the property."""


def digest(obj: Any) -> str:
	if not isinstance(obj, (str, bytes)):
		obj = json.dumps(obj, sort_keys=True, default=repr)
	if isinstance(obj, str):
		obj = obj.encode('utf-8', 'surrogatepass')
	return hashlib.sha1(obj).hexdigest()[:16]


class Ctx:
	"""Per-shard recording context."""

	def __init__(self, prop: str, tier: str, seed: int, shard: int, nshards: int, budget: dict, scratch: str, excluded: set[str]) -> None:
		self.prop = prop
		self.tier = tier
		self.seed = seed
		self.shard = shard
		self.nshards = nshards
		self.budget = budget
		self.scratch = scratch
		self.excluded = excluded  # exclusion flags of confirmed known findings
		self.deadline = time.time() + float(budget.get('seconds', 60))
		self.evaluations = 0
		self.labels: Counter = Counter()
		self.discards: Counter = Counter()
		self.nontrivial: set[str] = set()
		self.samples: list = []
		self.failures: dict[str, dict] = {}
		self.timeouts = 0
		self.extra: dict = {}

	# ---- recording -------------------------------------------------------------------
	def hseed(self, chunk: int = 0) -> int:
		return (self.seed * 1000 + self.shard) * 100003 + chunk

	def out_of_time(self) -> bool:
		return time.time() > self.deadline

	def case(self, key: Any, nontrivial: bool, sample: Any = None, labels: list[str] | tuple = ()) -> None:
		self.evaluations += 1
		for label in labels:
			self.labels[label] += 1
		if nontrivial:
			h = digest(key)
			if h not in self.nontrivial:
				self.nontrivial.add(h)
				if sample is not None and len(self.samples) < 4:
					self.samples.append(sample)

	def label(self, *labels: str) -> None:
		for label in labels:
			self.labels[label] += 1

	def discard(self, reason: str) -> None:
		self.discards[reason] += 1

	def fail(self, sig: str, detail: str, case: Any) -> None:
		size = len(json.dumps(case, default=repr))
		cur = self.failures.get(sig)
		if cur is None:
			self.failures[sig] = {'sig': sig, 'detail': detail[:4000], 'case': case, 'size': size, 'count': 1}
		else:
			cur['count'] += 1
			if size < cur['size']:
				cur.update(detail=detail[:4000], case=case, size=size)

	def result(self) -> dict:
		return {
			'evaluations': self.evaluations, 'labels': dict(self.labels), 'discards': dict(self.discards),
			'nontrivial': sorted(self.nontrivial), 'samples': self.samples, 'failures': self.failures,
			'timeouts': self.timeouts, 'extra': self.extra,
		}


def drive(ctx: Ctx, strategy, body: Callable[[Any], None], total: int, chunk: int = 200, stateful: bool = False) -> None:
	"""Run `body` over `total` generated examples, in chunks with derived seeds, until the budget ends.

	`body` must record oracle failures with ctx.fail() and return; any exception it lets escape
	is a harness error.
	"""
	import hypothesis
	from hypothesis import HealthCheck, Phase, given, settings

	if getattr(ctx, 'fuzz', None):
		_drive_atheris(ctx, strategy, body)  # does not return

	done = 0
	k = 0
	# the time budget is a safety net, not a verdict: on a loaded machine every shard still completes a floor of cases
	floor = int(ctx.budget.get('min_cases', max(2, min(total // 4, 40))))  # >= 2: the first example of a Hypothesis run is the minimal (trivial) one
	cases_run = [0]
	# chunked on purpose: measured on C14, one long Hypothesis run per shard yields 37% duplicate programs (mutation of earlier examples that only
	# touches unused draws), short runs with derived seeds 19% (mostly the minimal example that opens every run)
	while done < total and not (ctx.out_of_time() and cases_run[0] >= floor):
		n = min(chunk, total - done)
		st = settings(max_examples=n, database=None, deadline=None, derandomize=False, report_multiple_bugs=False,
			suppress_health_check=list(HealthCheck), phases=[Phase.generate], print_blob=False)

		class _Stop(BaseException):
			pass

		@hypothesis.seed(ctx.hseed(k))
		@st
		@given(strategy)
		def test(x):
			if ctx.out_of_time() and cases_run[0] >= floor:
				raise _Stop()
			cases_run[0] += 1
			if not _with_case_watchdog(ctx, body, x):
				raise _Stop()  # the interrupted case may have left shared state (apps, cache files) half-written: this shard ends here

		try:
			test()
		except _Stop:
			break
		done += n
		k += 1


class _CaseTimeout(BaseException):
	pass


@contextlib.contextmanager
def watchdog(seconds: float, exc: type):
	"""Alarm that nests: raises exc() in the main thread after `seconds` and then once a second until the block is left (so a
	timeout raised while a destructor or a swallowing handler runs is not lost), and gives an enclosing watchdog its remaining time back."""
	import signal

	def on_alarm(signum, frame):
		raise exc()

	started = time.monotonic()
	old = signal.signal(signal.SIGALRM, on_alarm)
	previous = signal.setitimer(signal.ITIMER_REAL, seconds, 1.0)
	try:
		yield
	finally:
		signal.setitimer(signal.ITIMER_REAL, 0)
		signal.signal(signal.SIGALRM, old)
		if previous[0] > 0:
			signal.setitimer(signal.ITIMER_REAL, max(previous[0] - (time.monotonic() - started), 0.05), previous[1])


def _with_case_watchdog(ctx: Ctx, body: Callable[[Any], None], x: Any) -> bool:
	"""Runs body(x) under a generous per-case alarm (checks with their own, tighter watchdog nest inside it). A case that does not finish is
	counted as inconclusive (never a verdict) and kept for diagnosis in the evidence, and the shard goes on."""
	import threading
	limit = float(ctx.budget.get('case_seconds', 180))
	if threading.current_thread() is not threading.main_thread():
		body(x)
		return True
	try:
		with watchdog(limit, _CaseTimeout):
			body(x)
	except _CaseTimeout:
		ctx.timeouts += 1
		ctx.discards['inconclusive:case-timeout'] += 1
		kept = ctx.extra.setdefault('timed_out_cases', [])
		if len(kept) < 3:
			kept.append(repr(x)[:2000])
		return False
	return True


def _drive_atheris(ctx: Ctx, strategy, body: Callable[[Any], None]) -> None:
	"""Coverage-guided variant of drive(): libFuzzer (atheris) mutates the byte string Hypothesis decodes into one example of `strategy`
	(`fuzz_one_input`), so the same generator, oracle and failure recording are used, steered by edge coverage of the instrumented tranp
	modules. libFuzzer never returns control: when the time budget ends the shard result is written and the process exits."""
	import atheris
	from hypothesis import HealthCheck, given, settings

	@settings(database=None, deadline=None, suppress_health_check=list(HealthCheck), print_blob=False)
	@given(strategy)
	def test(x):
		body(x)

	fuzz_one = test.hypothesis.fuzz_one_input
	end = time.time() + float(ctx.fuzz['seconds'])

	def finish() -> None:
		ctx.labels['engine:atheris'] = ctx.evaluations
		with open(ctx.fuzz['out'], 'w') as f:
			json.dump(ctx.result(), f)
		os._exit(0)

	def one(data: bytes) -> None:
		if time.time() >= end:
			finish()
		fuzz_one(data)

	corpus = os.path.join(ctx.scratch, 'corpus')
	os.makedirs(corpus, exist_ok=True)
	atheris.Setup([sys.argv[0], f'-seed={ctx.hseed() % (2 ** 31 - 1) + 1}', f'-max_len={ctx.fuzz.get("max_len", 4096)}', '-len_control=0', '-timeout=300', '-rss_limit_mb=4096', '-print_final_stats=0', corpus], one)
	atheris.Fuzz()
	finish()


SHRINK_DEADLINE = [None]   # wall-clock end of the shrinking phase of the current run (set by run_check)


def minimize(strategy, predicate: Callable[[Any], bool], seed: int, max_examples: int = 2000):
	"""Hypothesis-shrunk minimal example satisfying `predicate`, or None. Bounded by the run's shrink deadline: after it the predicate
	answers False at once, so the search ends with the best example found so far."""
	import hypothesis
	from hypothesis import HealthCheck, settings
	from hypothesis.errors import NoSuchExample
	inner = predicate

	def predicate(x):  # noqa: F811
		if SHRINK_DEADLINE[0] is not None and time.time() > SHRINK_DEADLINE[0]:
			return False
		return inner(x)
	try:
		return hypothesis.find(strategy, predicate, random=__import__('random').Random(seed),
			settings=settings(max_examples=max_examples, database=None, deadline=None, suppress_health_check=list(HealthCheck)))
	except NoSuchExample:
		return None
	except Exception:
		return None


# ---------------------------------------------------------------------------------------
# known findings


def load_known(prop: str) -> list[dict]:
	path = os.path.join(env.VERIF_DIR, 'known_findings.json')
	if not os.path.exists(path):
		return []
	with open(path) as f:
		data = json.load(f)
	return [e for e in data.get('findings', []) if e.get('property') == prop]


CASE_PREDICATES: dict = {}   # known-finding id -> predicate(case) registered by the check module (constructs a regex cannot identify)


def case_text(case) -> str:
	if isinstance(case, dict) and isinstance(case.get('source'), str):
		return case['source']
	return json.dumps(case, sort_keys=True, default=repr)


def frontend_exclusions() -> frozenset:
	"""Generator flags of the listed C01 findings that checks of the front end (types, symbols, renaming, sessions) must avoid as well:
	constructs the transpiler rejects or mis-types. Findings that only concern the emitted C++ text (`cpp_only`) stay in their generators."""
	return frozenset(e['exclude_flag'] for e in load_known('C01') if e.get('status') == 'known' and e.get('exclude_flag') and not e.get('cpp_only'))


def match_known(entries: list[dict], sig: str, case=None) -> dict | None:
	"""A failure is a listed finding only if its signature matches AND (when the entry has `case_regex`) the failing input itself
	contains the listed construct — a signature alone (e.g. any value mismatch) must never silence a different violation."""
	import re
	for e in entries:
		if e.get('status') != 'known':
			continue  # fixed entries suppress nothing
		if not (('sig' in e and e['sig'] == sig) or ('sig_regex' in e and re.fullmatch(e['sig_regex'], sig))):
			continue
		if 'case_regex' in e and (case is None or not re.search(e['case_regex'], case_text(case))):
			continue
		pred = CASE_PREDICATES.get(e.get('id'))
		if pred is not None:
			try:
				if case is None or not pred(case):
					continue
			except Exception:
				continue  # a predicate that cannot judge the input never silences a failure
		return e
	return None


# ---------------------------------------------------------------------------------------
# parent side


def _case_worker(args):
	modname, case = args
	try:
		env.setup()
		import importlib
		mod = importlib.import_module(modname)
		return [tuple(f) for f in mod.replay(case)]
	except BaseException:
		return traceback.format_exc()


def _run_cases(modname: str, cases: list, procs: int) -> list:
	"""mod.replay(case) for every case, each in a forked worker; a string result is the traceback of a harness error."""
	if not cases:
		return []
	if procs <= 1 or len(cases) == 1:
		return [_case_worker((modname, c)) for c in cases]
	mpctx = multiprocessing.get_context('fork')
	with mpctx.Pool(procs) as pool:
		return pool.map(_case_worker, [(modname, c) for c in cases], chunksize=1)


def _fuzz_phase(modname: str, prop: str, tier: str, seed: int, budget: dict, scratch: str, excluded: list, cfg: dict, scale: float):
	"""Runs cfg['procs'] libFuzzer processes (python -m vf.fuzz) and returns their shard results, [] when atheris is not installed, or an error text."""
	import subprocess
	probe = subprocess.run([sys.executable, '-c', 'import sys; sys.path.insert(0, %r); import atheris' % os.path.join(env.VERIF_DIR, '.deps')], capture_output=True)
	if probe.returncode != 0:
		print('NOTE: atheris is not installed (MANIFEST setup_cmd installs it into .deps): coverage-guided phase skipped')
		return []
	seconds = float(cfg.get('seconds', 120)) * (scale if tier == 'thorough' else min(scale, 1.0) * 0.25)
	procs = []
	for i in range(int(cfg.get('procs', 8))):
		sdir = os.path.join(scratch, f'fuzz{i}')
		os.makedirs(sdir, exist_ok=True)
		job = {'modname': modname, 'prop': prop, 'tier': tier, 'seed': seed, 'shard': 100 + i, 'nshards': 100 + int(cfg.get('procs', 8)), 'budget': budget, 'scratch': sdir,
			'excluded': list(excluded), 'fuzz': dict(cfg, seconds=seconds, out=os.path.join(sdir, 'result.json'))}
		with open(os.path.join(sdir, 'job.json'), 'w') as f:
			json.dump(job, f)
		log = open(os.path.join(sdir, 'log.txt'), 'w')
		procs.append((sdir, log, subprocess.Popen([sys.executable, os.path.join(env.VERIF_DIR, 'vf', 'fuzz.py'), os.path.join(sdir, 'job.json')], stdout=log, stderr=subprocess.STDOUT,
			env=dict(os.environ, PYTHONHASHSEED='0', VERIF_REPO=env.REPO), cwd=env.VERIF_DIR)))
	out = []
	for sdir, log, p in procs:
		try:
			p.wait(timeout=seconds * 3 + 600)
		except subprocess.TimeoutExpired:
			p.kill()
			return f'fuzz process did not finish within {seconds * 3 + 600:.0f}s (inconclusive)'
		log.close()
		res = os.path.join(sdir, 'result.json')
		if p.returncode != 0 or not os.path.exists(res):
			tail = open(os.path.join(sdir, 'log.txt'), errors='replace').read()[-3000:]
			return f'fuzz process exited with {p.returncode}\n{tail}'
		with open(res) as f:
			out.append(json.load(f))
	return out


def _worker(args) -> dict:
	modname, prop, tier, seed, shard, nshards, budget, scratch, excluded = args
	try:
		env.setup()
		import faulthandler
		import importlib
		import signal
		faulthandler.register(signal.SIGUSR1, all_threads=False)  # diagnosis of a slow shard: kill -USR1 <pid> prints where it is
		mod = importlib.import_module(modname)
		sdir = os.path.join(scratch, f'shard{shard}')
		os.makedirs(sdir, exist_ok=True)
		ctx = Ctx(prop, tier, seed, shard, nshards, budget, sdir, set(excluded))
		mod.shard(ctx)
		return ctx.result()
	except BaseException:
		return {'harness_error': traceback.format_exc()}


def merge(results: list[dict]) -> dict:
	out = {'evaluations': 0, 'labels': Counter(), 'discards': Counter(), 'nontrivial': set(), 'samples': [], 'failures': {}, 'timeouts': 0, 'extra': {}}
	for r in results:
		out['evaluations'] += r['evaluations']
		out['labels'].update(r['labels'])
		out['discards'].update(r['discards'])
		out['nontrivial'].update(r['nontrivial'])
		out['timeouts'] += r['timeouts']
		for s in r['samples']:
			if len(out['samples']) < 8:
				out['samples'].append(s)
		for sig, f in r['failures'].items():
			cur = out['failures'].get(sig)
			if cur is None:
				out['failures'][sig] = dict(f)
			else:
				cur['count'] += f['count']
				if f['size'] < cur['size']:
					cur.update(detail=f['detail'], case=f['case'], size=f['size'])
		for key, val in r['extra'].items():
			if isinstance(val, (int, float)) and not isinstance(val, bool):
				out['extra'][key] = out['extra'].get(key, 0) + val
			elif isinstance(val, list):
				out['extra'].setdefault(key, [])
				out['extra'][key].extend(val)
			else:
				out['extra'][key] = val
	return out


def write_replay(prop: str, failure: dict) -> str:
	d = os.path.join(os.environ.get('VERIF_REPLAY_DIR') or os.path.join(env.VERIF_DIR, 'replays'), prop)
	os.makedirs(d, exist_ok=True)
	name = digest([failure['sig'], failure['case']]) + '.json'
	path = os.path.join(d, name)
	with open(path, 'w') as f:
		json.dump({'property': prop, 'sig': failure['sig'], 'detail': failure['detail'], 'case': failure['case']}, f, indent=1, default=repr)
	return path


def saved_replays(prop: str) -> list[str]:
	d = os.path.join(env.VERIF_DIR, 'replays', prop)
	if not os.path.isdir(d):
		return []
	return [os.path.join(d, n) for n in sorted(os.listdir(d)) if n.endswith('.json')]


def write_evidence(mod, tier: str, seed: int, merged: dict, wall: float, violations: int, known_lines: list[str], replayed: int) -> str:
	cov = {
		'evaluations': int(merged['evaluations']),
		'distinct_nontrivial': len(merged['nontrivial']),
		'rule': mod.RULE,
		'samples': merged['samples'] or ['<no non-trivial sample recorded>'],
		'labels': dict(sorted(merged['labels'].items(), key=lambda kv: (-kv[1], kv[0]))[:200]),
		'discarded_out_of_domain': dict(merged['discards']),
		'inconclusive_timeouts': merged['timeouts'],
		'failure_buckets': {sig: {'count': f['count'], 'detail': f['detail'][:300]} for sig, f in merged['failures'].items()},
		'known_findings_reproduced': known_lines,
		'saved_replays_rerun': replayed,
		'exhaustive': False,
	}
	for key, val in merged['extra'].items():
		cov.setdefault(key, val)
	if mod.LEVEL == 'translation_validation':
		cov['programs'] = int(merged['extra'].get('programs', merged['evaluations']))
		cov['disagreements_checked'] = int(sum(f['count'] for f in merged['failures'].values()))
	ev = {
		'property_id': mod.PROPERTY, 'tier': tier, 'seed': seed, 'level': mod.LEVEL, 'coverage': cov,
		'assumptions': list(getattr(mod, 'ASSUMPTIONS', [])) + [
			'interpreter shims of vf/env.py (typing.TypeIs, named property) are behaviour-neutral',
			f'tree under test: {env.REPO} working tree, imported in-process under {sys.version.split()[0]}',
		],
		'wall_s': round(wall, 2), 'violations': violations,
	}
	d = os.environ.get('VERIF_EVIDENCE_DIR') or os.path.join(env.VERIF_DIR, 'evidence')
	os.makedirs(d, exist_ok=True)
	path = os.path.join(d, f'{mod.PROPERTY}.json')
	with open(path, 'w') as f:
		json.dump(ev, f, indent=1, default=repr)
	return path


def run_check(modname: str, tier: str, replay_path: str | None = None) -> int:
	env.setup()
	import importlib
	t0 = time.time()
	try:
		mod = importlib.import_module(modname)
	except Exception:
		print('HARNESS-ERROR: cannot import check', modname)
		traceback.print_exc()
		return EXIT_HARNESS
	prop = mod.PROPERTY
	seed = env.seed()
	known = load_known(prop)

	if replay_path:
		with open(replay_path) as f:
			rep = json.load(f)
		try:
			fails = mod.replay(rep['case'])
		except Exception:
			print('HARNESS-ERROR: replay raised')
			traceback.print_exc()
			return EXIT_HARNESS
		if fails:
			for sig, detail in fails:
				print(f'replay fails: {sig}: {detail[:500]}')
			print(f'VIOLATION property={prop} replay={replay_path}')
			return EXIT_VIOLATION
		print(f'replay passes: {replay_path}')
		return EXIT_OK

	budget = dict(mod.BUDGET[tier])
	scale = float(os.environ.get('VERIF_BUDGET_SCALE', '1'))
	if scale != 1:
		budget = {k: (type(v)(v * scale) if isinstance(v, (int, float)) and k not in ('shards', 'batch') else v) for k, v in budget.items()}
	nshards = int(os.environ.get('VERIF_SHARDS', budget.get('shards', 16)))
	excluded = sorted({e['exclude_flag'] for e in known if e.get('status') == 'known' and e.get('exclude_flag')})
	violations: list[dict] = []
	known_lines: list[str] = []

	with env.Scratch(prop) as scratch:
		# 1. + 2. saved counterexamples (regressions of seeded / fixed defects) and probes of the listed findings, in parallel processes
		jobs: list[tuple[str, str, dict]] = []
		for path in saved_replays(prop):
			with open(path) as f:
				jobs.append(('replay', path, json.load(f)['case']))
		for e in known:
			if e.get('status') == 'known' and 'reproducer' in e:
				jobs.append(('probe', e['id'], e['reproducer']))
		outcomes = _run_cases(modname, [j[2] for j in jobs], min(int(os.environ.get('VERIF_SHARDS', 16)), max(1, len(jobs))))
		replayed = 0
		for (kind, ident, case), fails in zip(jobs, outcomes):
			if isinstance(fails, str):
				print(f'HARNESS-ERROR: {"replay" if kind == "replay" else "known-finding probe"} raised for', ident)
				print(fails)
				return EXIT_HARNESS
			if kind == 'replay':
				replayed += 1
				for sig, detail in fails:
					if match_known(known, sig, case) is None:
						violations.append({'sig': sig, 'detail': detail, 'case': case, 'path': ident})
			else:
				e = next(x for x in known if x.get('id') == ident)
				hit = [f for f in fails if match_known([e], f[0], case)]
				other = [f for f in fails if not match_known(known, f[0], case)]
				if hit:  # KNOWN-FINDING is printed only while the finding still reproduces
					line = f"KNOWN-FINDING: property={prop} {e['id']}: {e['description']}"
					known_lines.append(line)
					print(line)
				for sig, detail in other:
					violations.append({'sig': sig, 'detail': detail, 'case': case})

		# 3. the generated campaign, sharded
		args = [(modname, prop, tier, seed, i, nshards, budget, scratch.path, excluded) for i in range(nshards)]
		if nshards == 1:
			results = [_worker(args[0])]
		else:
			mpctx = multiprocessing.get_context('fork')
			with mpctx.Pool(nshards) as pool:
				limit = float(budget.get('seconds', 60)) * 4 + 300
				try:
					results = pool.map_async(_worker, args, chunksize=1).get(timeout=limit)
				except multiprocessing.TimeoutError:
					pool.terminate()
					print(f'HARNESS-ERROR: a shard did not finish within {limit:.0f}s (budget {budget.get("seconds")}s); inconclusive, not a verdict')
					return EXIT_HARNESS
		errs = [r['harness_error'] for r in results if 'harness_error' in r]
		if errs:
			print('HARNESS-ERROR in shard:\n' + errs[0])
			return EXIT_HARNESS
		# 3b. coverage-guided phase (atheris / libFuzzer over the same strategies and oracles): thorough tier, or VERIF_FUZZ=1
		fuzz_cfg = getattr(mod, 'FUZZ', None)
		if fuzz_cfg and (tier == 'thorough' or os.environ.get('VERIF_FUZZ') == '1') and os.environ.get('VERIF_FUZZ') != '0':
			fuzz_results = _fuzz_phase(modname, prop, tier, seed, budget, scratch.path, excluded, fuzz_cfg, scale)
			if isinstance(fuzz_results, str):
				print('HARNESS-ERROR in coverage-guided phase:\n' + fuzz_results)
				return EXIT_HARNESS
			results = list(results) + fuzz_results
		merged = merge(results)
		if hasattr(mod, 'finish'):
			mod.finish(merged, tier)

		shrunk = 0
		SHRINK_DEADLINE[0] = time.time() + float(budget.get('shrink_seconds', 90 if tier == 'quick' else 600))
		for sig, f in sorted(merged['failures'].items()):
			k = match_known(known, sig, f.get('case'))
			if k is not None:
				line = f"KNOWN-FINDING: property={prop} {k['id']}: {k['description']} (x{f['count']} in campaign)"
				if not any(l.startswith(f"KNOWN-FINDING: property={prop} {k['id']}:") for l in known_lines):
					known_lines.append(line)
					print(line)
				continue
			if hasattr(mod, 'shrink') and shrunk < getattr(mod, 'MAX_SHRINKS', 8) and time.time() < SHRINK_DEADLINE[0]:
				shrunk += 1
				try:
					small = mod.shrink(f)
					if small is not None:
						f = small
				except Exception:
					traceback.print_exc()
				k = match_known(known, f['sig'], f.get('case'))  # the minimised case may turn out to be a listed finding
				if k is not None:
					line = f"KNOWN-FINDING: property={prop} {k['id']}: {k['description']} (x{f['count']} in campaign)"
					if not any(l.startswith(f"KNOWN-FINDING: property={prop} {k['id']}:") for l in known_lines):
						known_lines.append(line)
						print(line)
					continue
			violations.append(f)

	wall = time.time() - t0
	nviol = len(violations)
	write_evidence(mod, tier, seed, merged, wall, nviol, known_lines, replayed)
	print(f"{prop} {tier} seed={seed}: evaluations={merged['evaluations']} distinct_nontrivial={len(merged['nontrivial'])} "
		f"discarded={sum(merged['discards'].values())} buckets={len(merged['failures'])} wall={wall:.1f}s")
	if violations:
		for v in violations:
			path = v.get('path') or write_replay(prop, v)
			print(f"violation bucket {v['sig']}: {v['detail'][:600]}")
			print(f'VIOLATION property={prop} replay={path}')
		return EXIT_VIOLATION
	if len(merged['nontrivial']) < 2:
		print('HARNESS-ERROR: fewer than 2 non-trivial cases were generated; the generator or budget is broken')
		return EXIT_HARNESS
	return EXIT_OK
