"""CPython side of the C01/C03 oracles: run a generated program under CPython with *domain guards*.

The program is executed as an instrumented copy (ast.NodeTransformer): arithmetic, shifts, modulo,
indexing, slicing, dict lookup and pop go through guard functions that apply the real CPython operation
and raise OutOfDomain when the program leaves the region where Python and C++ semantics agree by
construction (DESIGN.md C01).  The canonical printer `show` produces the same text as the C++ `show`.
"""
import ast
import copy
import enum
import struct
import types

INT_MIN, INT_MAX = -2 ** 31, 2 ** 31 - 1


class OutOfDomain(Exception):
	def __init__(self, reason: str) -> None:
		super().__init__(reason)
		self.reason = reason


def _f32_exact(v: float) -> bool:
	try:
		return struct.unpack('f', struct.pack('f', v))[0] == v
	except (OverflowError, struct.error):
		return False


def _chk(v):
	if isinstance(v, bool):
		return v
	if isinstance(v, int) and not (INT_MIN <= v <= INT_MAX):
		raise OutOfDomain('int-overflow')
	if isinstance(v, float) and not _f32_exact(v):
		raise OutOfDomain('float-not-exact-in-float32')
	return v


def g_bin(op: str, a, b):
	import operator
	if isinstance(a, bool) or isinstance(b, bool):
		if op not in ('&', '|', '^') or not (isinstance(a, bool) and isinstance(b, bool)):
			raise OutOfDomain('bool-arithmetic')
	if op == '/':
		if isinstance(a, int) and isinstance(b, int):
			raise OutOfDomain('int-true-division')
		if b == 0:
			raise OutOfDomain('division-by-zero')
	if op == '%':
		if isinstance(a, str):
			raise OutOfDomain('str-format')
		if a < 0 or b <= 0:
			raise OutOfDomain('modulo-sign')
	if op in ('<<', '>>'):
		if a < 0 or b < 0 or b > 30:
			raise OutOfDomain('shift-range')
	if op == '*' and (isinstance(a, (str, list)) or isinstance(b, (str, list))):
		raise OutOfDomain('sequence-repeat')
	fn = {'+': operator.add, '-': operator.sub, '*': operator.mul, '/': operator.truediv, '%': operator.mod, '&': operator.and_, '|': operator.or_,
		'^': operator.xor, '<<': operator.lshift, '>>': operator.rshift}[op]
	return _chk(fn(a, b))


def g_un(op: str, a):
	if op == 'not':
		return not a
	if isinstance(a, bool):
		raise OutOfDomain('bool-arithmetic')
	return _chk({'-': lambda x: -x, '+': lambda x: +x, '~': lambda x: ~x}[op](a))


def g_index(v, i):
	if isinstance(v, dict):
		if i not in v:
			raise OutOfDomain('dict-key-missing')
		return v[i]
	if isinstance(i, slice):
		n = len(v)
		lo = 0 if i.start is None else i.start
		hi = n if i.stop is None else i.stop
		if i.step is not None or lo < 0 or hi < lo or hi > n:
			raise OutOfDomain('slice-range')
		return v[i]
	if isinstance(i, bool) or not isinstance(i, int) or i < 0 or i >= len(v):
		raise OutOfDomain('index-range')
	return v[i]


BY_VALUE_ARGS = [False]


def g_call(fn, *args, **kwargs):
	if BY_VALUE_ARGS[0] and isinstance(fn, (types.FunctionType, types.MethodType)) and getattr(fn, '__module__', '') == '__vf_main__':
		# third reference run: user functions and methods receive copies of containers and objects (what the C++ by-value parameters do);
		# a program whose results differ relies on aliasing and is outside the subset
		args = tuple(copy.deepcopy(a) if isinstance(a, (list, dict)) or hasattr(type(a), '__vf_fields__') else a for a in args)
		kwargs = {k: (copy.deepcopy(a) if isinstance(a, (list, dict)) or hasattr(type(a), '__vf_fields__') else a) for k, a in kwargs.items()}
	name = getattr(fn, '__name__', '')
	self_ = getattr(fn, '__self__', None)
	if name == 'pop' and isinstance(self_, list):
		if not self_ or (args and not (0 <= args[0] < len(self_))):
			raise OutOfDomain('pop-range')
	if name == 'pop' and isinstance(self_, dict) and args and args[0] not in self_:
		raise OutOfDomain('dict-key-missing')
	if name == 'insert' and isinstance(self_, list) and not (0 <= args[0] <= len(self_)):
		raise OutOfDomain('insert-range')
	if fn is int and args and isinstance(args[0], float):
		if args[0] != args[0] or abs(args[0]) > 2 ** 30:
			raise OutOfDomain('float-to-int-range')
	if fn is list and args and SORTED_DICTS[0]:
		return list(g_iter(args[0]))
	if fn is int and args and isinstance(args[0], str):
		s = args[0]
		if not (s.isdigit() or (s[:1] == '-' and s[1:].isdigit())) or len(s) > 9:
			raise OutOfDomain('str-to-int-format')
	return _chk(fn(*args, **kwargs)) if not isinstance(fn, type) or fn in (int, float) else fn(*args, **kwargs)


BY_VALUE_ASSIGN = [False]


def g_assign(v):
	"""The value an assignment binds. In the by-value pass containers and objects are copied, as the C++ declaration/assignment does:
	a program whose result changes relies on two names sharing one object."""
	if BY_VALUE_ASSIGN[0] and (isinstance(v, (list, dict)) or (getattr(type(v), '__module__', '') == '__vf_main__' and not isinstance(v, (enum.Enum, BaseException)))):
		return copy.deepcopy(v)
	return v


SORTED_DICTS = [False]
_VIEWS = (type({}.keys()), type({}.values()), type({}.items()))


def g_iter(x):
	"""Iteration source of a for loop / comprehension. In the second reference run dicts iterate in key order (what std::map does):
	a program whose results differ between the two runs relies on dict order and is outside the subset."""
	if SORTED_DICTS[0]:
		if isinstance(x, dict):
			return sorted(x)
		if isinstance(x, _VIEWS[0]):
			return sorted(x)
		if isinstance(x, _VIEWS[2]):
			return sorted(x, key=lambda kv: kv[0])
		if isinstance(x, _VIEWS[1]):
			m = x.mapping
			return [m[k] for k in sorted(m)]
	return x


class Instrument(ast.NodeTransformer):
	OPS = {ast.Add: '+', ast.Sub: '-', ast.Mult: '*', ast.Div: '/', ast.Mod: '%', ast.BitAnd: '&', ast.BitOr: '|', ast.BitXor: '^', ast.LShift: '<<', ast.RShift: '>>'}
	UNS = {ast.USub: '-', ast.UAdd: '+', ast.Invert: '~'}

	def visit_BinOp(self, node):
		self.generic_visit(node)
		return ast.copy_location(ast.Call(ast.Name('vfg_bin', ast.Load()), [ast.Constant(self.OPS[type(node.op)]), node.left, node.right], []), node)

	def visit_UnaryOp(self, node):
		self.generic_visit(node)
		if isinstance(node.op, ast.Not):
			return node
		return ast.copy_location(ast.Call(ast.Name('vfg_un', ast.Load()), [ast.Constant(self.UNS[type(node.op)]), node.operand], []), node)

	def visit_AugAssign(self, node):
		self.generic_visit(node)
		import copy
		load = copy.deepcopy(node.target)
		for n in ast.walk(load):
			if hasattr(n, 'ctx'):
				n.ctx = ast.Load()
		load = self.visit(load) if isinstance(load, ast.Subscript) else load
		value = ast.Call(ast.Name('vfg_bin', ast.Load()), [ast.Constant(self.OPS[type(node.op)]), load, node.value], [])
		return ast.copy_location(ast.Assign([node.target], value), node)

	def visit_Subscript(self, node):
		self.generic_visit(node)
		if not isinstance(node.ctx, ast.Load):
			return node
		if isinstance(node.value, ast.Name) and node.value.id in ('list', 'dict', 'tuple', 'Callable', 'ClassVar'):
			return node
		return ast.copy_location(ast.Call(ast.Name('vfg_index', ast.Load()), [node.value, node.slice], []), node)

	def visit_Call(self, node):
		self.generic_visit(node)
		if isinstance(node.func, ast.Name) and node.func.id in ('vfg_bin', 'vfg_un', 'vfg_index', 'vfg_call', 'vfg_iter', 'super', 'range', 'enumerate', 'len', 'isinstance'):
			return node
		if any(isinstance(a, ast.Starred) for a in node.args):
			return node
		return ast.copy_location(ast.Call(ast.Name('vfg_call', ast.Load()), [node.func, *node.args], node.keywords), node)

	def visit_For(self, node):
		self.generic_visit(node)
		node.iter = ast.copy_location(ast.Call(ast.Name('vfg_iter', ast.Load()), [node.iter], []), node.iter)
		return node

	def visit_comprehension(self, node):
		self.generic_visit(node)
		node.iter = ast.copy_location(ast.Call(ast.Name('vfg_iter', ast.Load()), [node.iter], []), node.iter)
		return node

	def visit_AnnAssign(self, node):
		# annotations stay untouched
		if node.value is not None:
			node.value = self.visit(node.value)
			node.value = ast.copy_location(ast.Call(ast.Name('vfg_assign', ast.Load()), [node.value], []), node.value)
		node.target = self.visit(node.target)
		return node

	def visit_Assign(self, node):
		self.generic_visit(node)
		if not isinstance(node.value, (ast.Tuple, ast.Starred)):
			node.value = ast.copy_location(ast.Call(ast.Name('vfg_assign', ast.Load()), [node.value], []), node.value)
		return node

	def visit_FunctionDef(self, node):
		node.body = [self.visit(s) for s in node.body]
		node.args.defaults = [self.visit(d) for d in node.args.defaults]
		return node

	def visit_ClassDef(self, node):
		node.body = [self.visit(s) for s in node.body]
		return node


def show(v) -> str:
	if isinstance(v, bool):
		return 'true' if v else 'false'
	if isinstance(v, enum.Enum):
		return show(v.value) if isinstance(v.value, int) else f'<enum {v.name}>'
	if isinstance(v, int):
		return str(v)
	if isinstance(v, float):
		return 'f:' + ('%.9g' % v)
	if isinstance(v, str):
		return '"' + v + '"'
	if isinstance(v, list):
		return '[' + ', '.join(show(x) for x in v) + ']'
	if isinstance(v, tuple):
		return '(' + ', '.join(show(x) for x in v) + ')'
	if isinstance(v, dict):
		return '{' + ', '.join(f'{show(k)}: {show(v[k])}' for k in sorted(v)) + '}'
	if v is None:
		return 'None'
	fields = getattr(type(v), '__vf_fields__', None)
	if fields is not None:
		return type(v).__name__ + '{' + ', '.join(f'{f}={show(getattr(v, f))}' for f in fields) + '}'
	return f'<{type(v).__name__}>'


def run(source: str, calls: list[tuple[str, str]], fields: dict[str, list[str]], guarded: bool = True, step_limit: int = 200000) -> dict:
	out = run_once(source, calls, fields, guarded, step_limit)
	if guarded and out['out_of_domain'] is None and ('dict' in source or '{' in source):
		SORTED_DICTS[0] = True
		try:
			again = run_once(source, calls, fields, guarded, step_limit)
		finally:
			SORTED_DICTS[0] = False
		if again != out:
			return {'lines': out['lines'], 'out_of_domain': 'relies-on-dict-order'}
	if guarded and out['out_of_domain'] is None and ('list[' in source or 'dict[' in source or 'class ' in source):
		BY_VALUE_ARGS[0] = True
		try:
			again = run_once(source, calls, fields, guarded, step_limit)
		finally:
			BY_VALUE_ARGS[0] = False
		if again != out:
			return {'lines': out['lines'], 'out_of_domain': 'relies-on-aliasing-of-arguments'}
		BY_VALUE_ASSIGN[0] = True
		try:
			again = run_once(source, calls, fields, guarded, step_limit)
		finally:
			BY_VALUE_ASSIGN[0] = False
		if again != out:
			return {'lines': out['lines'], 'out_of_domain': 'relies-on-aliasing-of-variables'}
	return out


def run_once(source: str, calls: list[tuple[str, str]], fields: dict[str, list[str]], guarded: bool = True, step_limit: int = 200000) -> dict:
	"""Execute `source`, then evaluate each (label, python call expression).

	Returns {'lines': {label: text}, 'out_of_domain': reason | None}.  A call that raises a generated
	exception class yields 'RAISED <Class>'; OutOfDomain aborts the whole program (it is discarded).
	"""
	import sys
	tree = ast.parse(source)
	if guarded:
		tree = Instrument().visit(tree)
		ast.fix_missing_locations(tree)
	ns: dict = {'__name__': '__vf_main__', 'vfg_bin': g_bin, 'vfg_un': g_un, 'vfg_index': g_index, 'vfg_call': g_call, 'vfg_iter': g_iter, 'vfg_assign': g_assign}
	steps = [0]

	def tracer(frame, event, arg):
		steps[0] += 1
		if steps[0] > step_limit:
			raise OutOfDomain('step-limit')
		return tracer

	out = {'lines': {}, 'out_of_domain': None}
	old = sys.gettrace()
	try:
		sys.settrace(tracer)
		exec(compile(tree, '<generated>', 'exec'), ns)
		for cname, flds in fields.items():
			if cname in ns:
				ns[cname].__vf_fields__ = flds
		for label, expr in calls:
			call_tree = ast.parse(expr, mode='eval')
			if guarded:
				call_tree = ast.fix_missing_locations(Instrument().visit(call_tree))
			try:
				out['lines'][label] = show(eval(compile(call_tree, '<call>', 'eval'), ns))
			except OutOfDomain:
				raise
			except RecursionError:
				raise OutOfDomain('recursion')
			except Exception as e:
				out['lines'][label] = f'RAISED {type(e).__name__}'
	except OutOfDomain as e:
		out['out_of_domain'] = e.reason
	except RecursionError:
		out['out_of_domain'] = 'recursion'
	finally:
		sys.settrace(old)
	return out
