"""Scratch CLI projects for the history properties (C05, C06): config.yml + sources, in-process runs of bin/transpile.py's Runner."""
import os
import shutil

from vf import env

env.setup()


def write_config(project: str, output_dirs: list[str], input_globs: list[str], cache_enabled: bool = True, exclude: list[str] | None = None) -> None:
	import yaml
	root = env.REPO
	cfg = {
		'grammar': os.path.join(root, 'data/grammar.lark'),
		'template_dirs': [os.path.join(root, 'data/cpp/template')],
		'trans_mapping': os.path.join(root, 'data/i18n.yml'),
		'input_globs': input_globs,
		'exclude_patterns': exclude or [],
		'output_dirs': output_dirs,
		'output_language': 'cpp:h',
		'env': {'transpiler': {'include_dirs': []}, 'view': {'immutable_param_types': []}},
		'di': {
			'rogw.tranp.app.env.DataEnvPath': 'vf.providers_data.data_env_path',
		},
	}
	if not cache_enabled:
		cfg['di']['rogw.tranp.cache.cache.CacheSetting'] = 'vf.providers.cache_setting_disabled'
	with open(os.path.join(project, 'config.yml' if cache_enabled else 'config_nocache.yml'), 'w') as f:
		yaml.safe_dump(cfg, f)


def run_cli(project: str, force: bool = False, cache_enabled: bool = True, extra: list[str] | None = None) -> None:
	"""One command-line invocation (fresh App), in-process, with cwd = project."""
	from rogw.tranp.app.app import App
	from rogw.tranp.bin.transpile import Args, TranspileApp
	cwd = os.getcwd()
	os.chdir(project)
	try:
		argv = ['-c', 'config.yml' if cache_enabled else 'config_nocache.yml'] + (['-f'] if force else []) + (extra or [])
		App(TranspileApp.definitions(Args(argv))).run(TranspileApp.run)
	finally:
		os.chdir(cwd)


def tree(root: str, skip: tuple = ()) -> dict[str, bytes]:
	out = {}
	for base, dirs, files in os.walk(root):
		dirs[:] = [d for d in dirs if d not in skip]
		for f in files:
			p = os.path.join(base, f)
			out[os.path.relpath(p, root)] = open(p, 'rb').read()
	return out


def copy_project(src: str, dst: str, with_cache: bool, with_outputs: bool = True, out_dirs: tuple = ('out',)) -> None:
	def ignore(d, names):
		skip = []
		if not with_cache and '.cache' in names:
			skip.append('.cache')
		if not with_outputs:
			skip += [n for n in names if n in out_dirs and os.path.samefile(d, src)]
		return skip
	shutil.copytree(src, dst, ignore=ignore, copy_function=shutil.copy2)


def bump_write(path: str, text: str) -> None:
	"""Rewrite a source file and make sure its mtime strictly increases (edits change content *and* mtime)."""
	old = os.stat(path).st_mtime_ns if os.path.exists(path) else 0
	os.makedirs(os.path.dirname(path), exist_ok=True)
	with open(path, 'w') as f:
		f.write(text)
	now = os.stat(path).st_mtime_ns
	if now <= old:
		os.utime(path, ns=(old + 2_000_000_000, old + 2_000_000_000))


# ---------------------------------------------------------------------------------------
# a small family of modules with *visible* variants (types/values exported to importers) and *invisible* ones (a body constant)

VISIBLE = {'ma': 3, 'mb': 2, 'mc': 1, 'md': 1, 'me': 3, 'mf': 3, 'mg': 1}   # number of visible variants per module
GRAPHS = {
	'pair': {'ma': [], 'mb': ['ma']},
	'chain': {'ma': [], 'mb': ['ma'], 'mc': ['mb']},
	'diamond': {'ma': [], 'mb': ['ma'], 'md': ['ma', 'mb']},
	'chain4': {'ma': [], 'mb': ['ma'], 'mc': ['mb'], 'md': ['mc', 'ma']},
	# me and mf have the same interface (for one variant their texts are identical): an importer of both can see their contents exchanged
	'twins': {'me': [], 'mf': [], 'mg': ['me', 'mf']},
}


def module_source(name: str, pkg: dict, visible: int, invisible: int, graph: dict) -> str:
	"""pkg: module name -> package (directory) name. invisible = body constant (last digit) + 10 * number of blanks behind the comment line
	(an edit that changes nothing but trailing white space; comments are copied into the output)."""
	text = _module_source(name, pkg, visible, invisible % 10, graph)
	return text + '# note' + ' ' * (invisible // 10) + '\n'


def _module_source(name: str, pkg: dict, visible: int, invisible: int, graph: dict) -> str:
	def imp(m: str, names: str) -> str:
		return f'from {pkg[m].replace("/", ".") + "." if pkg[m] else ""}{m} import {names}\n'  # pkg '' = module file directly in the project root
	if name == 'ma':
		t, e, vals = [('int', 'n + 1', (1, 2)), ('str', 'str(n)', (3, 4)), ('float', 'float(n)', (5, 7))][visible]
		return ('from enum import Enum\n\nclass E(Enum):\n\tA = %d\n\tB = %d\n\nclass K:\n\tx: %s\n\n\tdef __init__(self, x: %s) -> None:\n\t\tself.x = x\n\n'
			'def make(n: int) -> %s:\n\tc = %d\n\treturn %s\n') % (vals[0], vals[1], t, t, t, invisible, e) + (
			# symbols with more than ten attributes and nested type arguments: their order and nesting must survive the symbol cache
			'\ndef wide(p0: int, p1: str, p2: float, p3: bool, p4: int, p5: str, p6: list[int], p7: dict[str, int], p8: int, p9: str, p10: float) -> %s:\n\tn = p0\n\treturn %s\n'
			'\ndef deep(n: int) -> dict[str, list[tuple[int, %s]]]:\n\treturn {"k": [(n, %s)]}\n') % (t, e, t, e)
	if name == 'mb':
		top = ['make(1)', '[make(2)]'][visible]
		return (imp('ma', 'make, K, E, wide, deep') + f'\nTOP = {top}\n\ndef use(n: int) -> None:\n\tc = {invisible}\n\tv = make(n)\n\tw = [v]\n\tk = K(make(n))\n\tkx = k.x\n\te = E.A.value\n\tb = E.B\n'
			"\tww = wide(n, 'a', 1.0, True, 2, 'b', [n], {'k': n}, 3, 'c', 2.0)\n\twl = [ww]\n\tdd = deep(n)\n\tde = dd['k']\n")
	if name == 'mc':
		return imp('mb', 'TOP') + f'\ndef g(n: int) -> None:\n\tc = {invisible}\n\tz = TOP\n\tzz = [z]\n'
	if name in ('me', 'mf'):
		t, e = [('int', 'n + 1'), ('str', 'str(n)'), ('float', 'float(n)')][visible]
		return f'class Q:\n\tdef val(self) -> {t}:\n\t\tn = {invisible}\n\t\treturn {e}\n\ndef give(n: int) -> {t}:\n\tc = {invisible}\n\treturn {e}\n'
	if name == 'mg':
		return imp('me', 'give') + imp('mf', 'Q') + f'\ndef both(n: int) -> None:\n\tc = {invisible}\n\tx = give(n)\n\tq = Q()\n\ty = q.val()\n\tz = [x]\n'
	if name == 'md':
		deps = graph['md']
		lines = ''
		body = f'\tc = {invisible}\n'
		if 'ma' in deps:
			lines += imp('ma', 'make')
			body += '\tq = make(n)\n'
		if 'mb' in deps:
			lines += imp('mb', 'TOP')
			body += '\tr = TOP\n'
		if 'mc' in deps:
			lines += imp('mc', 'g')
			body += '\tg(n)\n'
		return lines + f'\ndef h(n: int) -> None:\n{body}'
	raise ValueError(name)


def indirect_only_dependencies(graph: dict, m: str) -> set:
	direct = set(graph[m])
	seen: set = set()
	todo = list(direct)
	while todo:
		x = todo.pop()
		for y in graph[x]:
			if y not in seen:
				seen.add(y)
				todo.append(y)
	return seen - direct


def dependents(graph: dict, m: str) -> set:
	out: set = set()
	changed = True
	while changed:
		changed = False
		for x, deps in graph.items():
			if x not in out and (m in deps or out & set(deps)):
				out.add(x)
				changed = True
	return out
