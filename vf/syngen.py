"""G2 — syntax generator over the constructs of data/grammar.lark (untyped).

Text is produced by construction with precedence-aware parenthesisation, so almost every
output is accepted by both data/grammar.lark and CPython; callers still *check* both and count
what falls outside.  All choices go through the `rnd` object (a Hypothesis-managed Random).
"""

KEYWORD_FREE_NAMES = ['a', 'b', 'c', 'x', 'y', 'z', 'n', 'xs', 'ys', 'foo', 'bar', 'baz', 'value', 'item', 'self', 'cls', 'A', 'B', 'Base', 'T', 'name_1', '_p', '__q', 'data', 'k', 'v']
ATTRS = ['a', 'b', 'x', 'value', 'name', 'items', 'append', 'n', 'on', 'raw']
TYPE_NAMES = ['int', 'str', 'float', 'bool', 'A', 'B', 'T', 'list', 'dict', 'object']

# precedence levels
LAMBDA, TERNARY, OR, AND, NOT, CMP, BOR, BXOR, BAND, SHIFT, SUM, TERM, UNARY, PRIMARY = range(14)
BIN_LEVELS = {BOR: ['|'], BXOR: ['^'], BAND: ['&'], SHIFT: ['<<', '>>'], SUM: ['+', '-'], TERM: ['*', '/', '%']}
CMP_OPS = ['<', '>', '==', '>=', '<=', '!=', 'in', 'not in', 'is', 'is not']


class Gen:
	def __init__(self, rnd, max_depth: int = 4, layout: bool = True, friendly: bool = False) -> None:
		self.rnd = rnd
		# friendly: stay inside what the node model (not only the grammar) represents: call/index receivers are references or calls,
		# no `...` as a tuple type argument, `except` always binds a name
		self.friendly = friendly
		self.max_depth = max_depth
		self.layout = layout
		self.stats = {'op_levels': set(), 'block_depth': 0, 'clauses2': False, 'multiline': False, 'tab': False, 'empty_slots': 0}
		self.exclude: set = set()     # generator flags of listed findings
		self.class_compound = 0       # nesting depth of compound statements directly inside a class body

	# ---- helpers ----------------------------------------------------------------------
	def pick(self, seq):
		return seq[self.rnd.randint(0, len(seq) - 1)]

	def chance(self, p: float) -> bool:
		return self.rnd.random() < p

	def name(self) -> str:
		n = self.pick(KEYWORD_FREE_NAMES)
		return 'obj' if self.friendly and n in ('self', 'cls') else n

	def join_items(self, items: list[str], trailing_ok: bool = True, force_trailing: bool = False) -> str:
		"""Comma-joined items, optionally spread over several lines (only ever called inside brackets)."""
		if self.layout and len(items) >= 2 and self.chance(0.12):
			self.stats['multiline'] = True
			tail = ',' if (trailing_ok and self.chance(0.5)) or force_trailing else ''
			return '\n\t\t' + ',\n\t\t'.join(items) + tail + '\n\t'
		tail = ',' if force_trailing or (items and trailing_ok and self.chance(0.1)) else ''
		return ', '.join(items) + tail

	# ---- literals ---------------------------------------------------------------------
	def number(self) -> str:
		return self.pick(['0', '1', '2', '10', '42', '1.5', '0.25', '3.', '0x1F', '0xff', '1000000', '1e3', '2E-3', '1e5', '1.5e3', '0x1e5'])

	def string(self) -> str:
		body = ''.join(self.pick(['a', 'b', ' ', 'x1', '%d', '{}', ',', ':', '(', '#']) for _ in range(self.rnd.randint(0, 3)))
		c = self.rnd.randint(0, 9)
		if c <= 3:
			return f"'{body}'"
		if c <= 6:
			return f'"{body}"'
		if c == 7:
			return f"r'{body}\\d'"
		if c == 8:
			return f'f"{body}"'.replace('{}', '{{}}')
		self.stats['multiline'] = True
		return f'"""{body}\n{body}"""'

	# ---- expressions ------------------------------------------------------------------
	def expr(self, depth: int, level: int = LAMBDA) -> str:
		"""An expression that can stand where precedence >= level is required."""
		text, own = self._expr(depth)
		if own < level or (own < PRIMARY and self.chance(0.08)):
			return f'({text})'
		return text

	def _expr(self, depth: int) -> tuple[str, int]:
		r = self.rnd
		if depth <= 0:
			return self.atom(0), PRIMARY
		c = r.randint(0, 29)
		if c <= 4:
			return self.atom(depth), PRIMARY
		if c <= 9:
			return self.primary(depth), PRIMARY
		if c <= 15:
			level = self.pick(list(BIN_LEVELS))
			self.stats['op_levels'].add(level)
			n = r.randint(2, 4) if self.chance(0.35) else 2
			parts = [self.expr(depth - 1, level)]
			for _ in range(n - 1):
				parts.append(self.pick(BIN_LEVELS[level]))
				parts.append(self.expr(depth - 1, level + 1))
			return ' '.join(parts), level
		if c <= 17:
			self.stats['op_levels'].add(UNARY)
			return self.pick(['-', '+', '~']) + self.expr(depth - 1, UNARY), UNARY
		if c <= 20:
			self.stats['op_levels'].add(CMP)
			n = r.randint(2, 3) if self.chance(0.3) else 2
			parts = [self.expr(depth - 1, BOR)]
			for _ in range(n - 1):
				parts.append(self.pick(CMP_OPS))
				parts.append(self.expr(depth - 1, BOR))
			return ' '.join(parts), CMP
		if c == 21:
			self.stats['op_levels'].add(NOT)
			return 'not ' + self.expr(depth - 1, NOT), NOT
		if c <= 24:
			level = self.pick([OR, AND])
			self.stats['op_levels'].add(level)
			word = 'or' if level == OR else 'and'
			n = r.randint(2, 4) if self.chance(0.4) else 2
			return f' {word} '.join(self.expr(depth - 1, level + 1) for _ in range(n)), level
		if c <= 26:
			self.stats['op_levels'].add(TERNARY)
			return f'{self.expr(depth - 1, OR)} if {self.expr(depth - 1, OR)} else {self.expr(depth - 1, TERNARY)}', TERNARY
		if c == 27:
			params = ', '.join(dict.fromkeys(self.name() for _ in range(r.randint(0, 2))))
			return f'lambda{" " + params if params else ""}: {self.expr(depth - 1, LAMBDA)}', LAMBDA
		return self.comp(depth), PRIMARY

	def atom(self, depth: int) -> str:
		r = self.rnd
		c = r.randint(0, 19) if depth > 0 else r.randint(0, 9)
		if c <= 4:
			return self.name()
		if c <= 6:
			return self.number()
		if c == 7:
			return self.string()
		if c == 8:
			return self.pick(['True', 'False', 'None'])
		if c == 9:
			return self.pick(['...', '[]', '{}', '()'])
		if c == 10 and self.chance(0.5):
			# a display directly followed by a comprehension of the same kind: their tags (list / list_comp, dict / dict_comp) are string prefixes
			first = self.pick(['[]', f'[{self.number()}]', '{}', f'{{{self.string()}: {self.name()}}}'])
			opener, closer = self.pick([('[', ']'), ('(', ')')])
			return opener + first + ', ' + self.comp(depth) + closer
		if c <= 12:
			items = [self.expr(depth - 1, TERNARY) if not self.chance(0.08) else '*' + self.expr(depth - 1, BOR) for _ in range(r.randint(1, 3))]
			return '[' + self.join_items(items) + ']'
		if c <= 14:
			n = r.randint(1, 3)
			items = [self.expr(depth - 1, TERNARY) for _ in range(n)]
			return '(' + self.join_items(items, force_trailing=(n == 1)) + ')'
		if c <= 16:
			items = [f'{self.expr(depth - 1, TERNARY)}: {self.expr(depth - 1, TERNARY)}' if not self.chance(0.1) else '**' + self.expr(depth - 1, BOR) for _ in range(r.randint(1, 3))]
			return '{' + self.join_items(items) + '}'
		if c == 17:
			return '(' + self.expr(depth - 1, LAMBDA) + ')'
		return self.comp(depth)

	def comp(self, depth: int) -> str:
		r = self.rnd
		fors = []
		for _ in range(r.randint(1, 2) if self.chance(0.2) else 1):
			names = ', '.join(dict.fromkeys(self.name() for _ in range(r.randint(1, 2))))
			fors.append(f'for {names} in {self.expr(depth - 1, OR)}')
		cond = f' if {self.expr(depth - 1, OR)}' if self.chance(0.4) else ''
		if self.chance(0.7):
			return f'[{self.expr(depth - 1, TERNARY)} {" ".join(fors)}{cond}]'
		return f'{{{self.expr(depth - 1, TERNARY)}: {self.expr(depth - 1, TERNARY)} {" ".join(fors)}{cond}}}'

	def primary(self, depth: int) -> str:
		r = self.rnd
		base = self.atom(depth - 1) if self.chance(0.3) else self.name()
		if base[0] in '0123456789-+~' or base.startswith(('lambda', 'not ')):
			base = f'({base})'
		if self.friendly and base == '...':
			base = self.name()
		literal_base = base[0] in '([{"\'0123456789.' or base[:2] in ('r"', "r'", 'f"', "f'") or base in ('True', 'False', 'None', '...')
		for _ in range(r.randint(1, 3)):
			c = r.randint(0, 9)
			if self.friendly and literal_base:
				c = 0  # only attribute access on a literal/group receiver
			literal_base = False
			if c <= 3:
				base += '.' + self.pick(ATTRS)
			elif c <= 7:
				base += '(' + self.arguments(depth - 1) + ')'
			else:
				base += '[' + self.slices(depth - 1) + ']'
		return base

	def arguments(self, depth: int) -> str:
		r = self.rnd
		args = [self.expr(depth, TERNARY) for _ in range(r.randint(0, 3))]
		seen = set()
		for _ in range(r.randint(0, 2) if self.chance(0.4) else 0):
			k = self.name()
			if k not in seen:
				seen.add(k)
				args.append(f'{k}={self.expr(depth, TERNARY)}')
		if self.chance(0.08):
			args.append('*' + self.expr(depth, BOR))
		if self.chance(0.08):
			args.append('**' + self.expr(depth, BOR))
		if not args:
			self.stats['empty_slots'] += 1
		return self.join_items(args, trailing_ok=False) if args else ''

	def slices(self, depth: int) -> str:
		r = self.rnd
		c = r.randint(0, 9)
		if c <= 4:
			return self.expr(depth, TERNARY)
		if c <= 7:
			lo = self.expr(depth, TERNARY) if self.chance(0.6) else ''
			hi = self.expr(depth, TERNARY) if self.chance(0.6) else ''
			step = ':' + self.expr(depth, TERNARY) if self.chance(0.25) else ''
			if not lo or not hi:
				self.stats['empty_slots'] += 1
			return f'{lo}:{hi}{step}'
		return ', '.join(self.expr(depth, TERNARY) for _ in range(r.randint(2, 3)))

	# ---- type expressions -------------------------------------------------------------
	def type_expr(self, depth: int = 2, top: bool = True) -> str:
		r = self.rnd
		c = r.randint(0, 14) if depth > 0 else r.randint(0, 3)
		if c == 13 and not top:
			c = 0
		if c in (10, 14):
			return f'{self.type_expr(depth - 1, False)} | None' if c == 10 else f'{self.type_expr(depth - 1, False)} | {self.type_expr(depth - 1, False)}'
		if c <= 3:
			return self.pick(TYPE_NAMES)
		if c == 4:
			return self.pick(TYPE_NAMES) + '.' + self.pick(['Inner', 'V', 'T'])
		if c <= 7:
			return f'list[{self.type_expr(depth - 1)}]'
		if c == 8:
			return f'dict[{self.type_expr(depth - 1)}, {self.type_expr(depth - 1)}]'
		if c == 9:
			return f'tuple[{self.type_expr(depth - 1)}, ...]' if self.chance(0.4) and not self.friendly else f'tuple[{self.type_expr(depth - 1)}, {self.type_expr(depth - 1)}]'
		if c == 10:
			return f'{self.type_expr(depth - 1)} | None'
		if c == 11:
			return f"'{self.pick(TYPE_NAMES)}'"
		if c == 12:
			return f'Callable[[{", ".join(self.type_expr(depth - 1) for _ in range(r.randint(0, 2)))}], {self.pick(["None", self.type_expr(depth - 1)])}]'
		if c == 13:
			return self.pick(["Literal['a', 1]", 'Literal["x"]', 'Annotated[int, meta]', 'Annotated[A | None, meta, 1]'])
		return f'{self.type_expr(depth - 1)} | {self.type_expr(depth - 1)}'

	# ---- statements -------------------------------------------------------------------
	def target(self, depth: int) -> str:
		c = self.rnd.randint(0, 9)
		if c <= 5:
			return self.name()
		if c <= 7:
			return f'{self.name()}.{self.pick(ATTRS)}'
		return f'{self.name()}[{self.expr(depth, TERNARY)}]'

	def testlist(self, depth: int) -> str:
		if self.chance(0.2):
			n = self.rnd.randint(1, 3)
			items = [self.expr(depth, TERNARY) for _ in range(n)]
			return ', '.join(items) + (',' if n == 1 else '')
		return self.expr(depth, LAMBDA)

	def simple(self, depth: int, in_class: bool = False) -> str:
		r = self.rnd
		c = r.randint(0, 29)
		d = min(depth, self.max_depth)
		if c <= 4:
			return self.expr(d, LAMBDA)
		if c <= 9:
			n_targets = r.randint(1, 2) if self.chance(0.15) else 1
			lhs = []
			for _ in range(n_targets):
				lhs.append(', '.join(self.target(d - 1) for _ in range(r.randint(2, 3))) if self.chance(0.15) else self.target(d - 1))
			return ' = '.join(lhs) + ' = ' + self.testlist(d)
		if c <= 12:
			value = f' = {self.expr(d, LAMBDA)}' if self.chance(0.75) else ''
			return f'{self.target(0) if self.chance(0.2) and not self.friendly else self.name()}: {self.type_expr()}{value}'
		if c <= 14:
			op = self.pick(['+=', '-=', '*=', '/=', '%=', '&=', '|=', '^=', '<<=', '>>=', '**=', '//=', '@='])
			return f'{self.target(d - 1)} {op} {self.expr(d, LAMBDA)}'
		if c <= 16:
			if self.chance(0.25):
				self.stats['empty_slots'] += 1
				return 'return'
			return 'return ' + self.testlist(d)
		if c == 17:
			names = ', '.join(f'{n}{" as " + self.name() if self.chance(0.3) else ""}' for n in dict.fromkeys(self.name() for _ in range(r.randint(1, 3))))
			mod = '.'.join(self.pick(['pkg', 'mod', 'sub', 'typing', 'enum']) for _ in range(r.randint(1, 3)))
			return f'from {mod} import ({names})' if self.chance(0.25) else f'from {mod} import {names}'
		if c == 18:
			exc = f'{self.pick(["ValueError", "Exception", "A.Error"])}({self.arguments(d - 1) if self.chance(0.7) else ""})' if self.chance(0.8) else self.name()
			return f'raise {exc}' + (f' from {self.name()}' if self.chance(0.25) else '')
		if c == 19:
			return 'pass'
		if c == 20:
			return 'del ' + ', '.join(self.target(d - 1) for _ in range(r.randint(1, 2)))
		if c == 21:
			return 'yield ' + self.testlist(d)
		if c == 22:
			return f'assert {self.expr(d, TERNARY)}' + (f', {self.expr(d, TERNARY)}' if self.chance(0.4) else '')
		if c == 23:
			return self.pick(['break', 'continue'])
		if c == 24:
			return '# ' + self.pick(['comment', 'note: x', 'TODO', '@see a.b'])
		if c == 25 and in_class:
			return self.pick([f'{self.name()}: ClassVar = {self.expr(d, LAMBDA)}', f'{self.name()}: ClassVar[{self.type_expr()}] = {self.expr(d, LAMBDA)}'])
		if c == 26:
			return self.pick([f"{self.name()} = TypeVar('T')", f"{self.name()} = TypeVar('T', bound={self.type_expr(1)})", f'{self.name()}: TypeAlias = {self.type_expr()}',
				f"{self.name()} = TypedDict('D', {{'a': {self.type_expr(1)}, 'b': {self.type_expr(1)}}})"])
		return self.expr(d, LAMBDA)

	def params(self, method: bool, first: str = 'self') -> str:
		r = self.rnd
		ps: list[str] = []
		if method and first != '':
			ps.append(first if self.friendly else self.pick(['self', 'self', 'cls']))
		names = list(dict.fromkeys(self.name() for _ in range(r.randint(0, 3))))
		names = [n for n in names if n not in ('self', 'cls')]
		defaults = False
		for n in names:
			p = n
			if self.chance(0.8):
				p += ': ' + self.type_expr()
			if defaults or self.chance(0.25):
				defaults = True
				p += ' = ' + self.expr(1, TERNARY)
			ps.append(p)
		if self.chance(0.12):
			ps.append('*args' + (': ' + self.type_expr(1) if self.chance(0.5) else ''))
		if self.chance(0.12):
			ps.append('**kwargs' + (': ' + self.type_expr(1) if self.chance(0.5) else ''))
		if not ps:
			self.stats['empty_slots'] += 1
		return self.join_items(ps, trailing_ok=False) if ps else ''

	def decorators(self, ind: str, method: bool = False) -> list[str]:
		out = []
		for _ in range(self.rnd.randint(1, 2) if self.chance(0.25) else 0):
			pool = ['Embed.public', 'deco', 'pkg.mod.deco'] + (['classmethod', 'property', 'abstractmethod', 'staticmethod'] if method or not self.friendly else [])
			path = self.pick(pool)
			args = f'({self.arguments(1)})' if self.chance(0.3) else ''
			out.append(f'{ind}@{path}{args}')
		return out

	def block(self, depth: int, level: int, ind_unit: str, in_class: bool = False, in_func: bool = False) -> list[str]:
		"""Lines of an indented block at nesting `level` (already indented)."""
		self.stats['block_depth'] = max(self.stats['block_depth'], level)
		lines: list[str] = []
		for _ in range(self.rnd.randint(1, 3)):
			lines.extend(self.statement(depth, level, ind_unit, in_class, in_func))
			if self.layout and self.chance(0.1):
				lines.append(self.pick(['', ind_unit * level]))
		if all(not l.strip() or l.strip().startswith('#') for l in lines):
			lines.append(ind_unit * level + 'pass')  # a comment-only block is no block for CPython
		return lines

	def suite(self, header: str, depth: int, level: int, ind_unit: str, in_class: bool = False, in_func: bool = False) -> list[str]:
		"""`header:` followed by an indented block, or a one-line block."""
		ind = ind_unit * level
		if self.chance(0.08):
			s = self.simple(1, in_class)
			if not s.startswith('#') and '\n' not in s:
				return [f'{ind}{header}: {s}']
		compound = in_class and not in_func and not header.startswith(('class ', 'def '))
		self.class_compound += 1 if compound else 0
		try:
			return [f'{ind}{header}:'] + self.block(depth - 1, level + 1, ind_unit, in_class, in_func)
		finally:
			self.class_compound -= 1 if compound else 0

	def statement(self, depth: int, level: int, ind_unit: str, in_class: bool = False, in_func: bool = False) -> list[str]:
		r = self.rnd
		ind = ind_unit * level
		if depth <= 0 or level >= 4 or self.chance(0.55):
			return [ind + self.simple(min(depth + 1, self.max_depth), in_class)]
		c = r.randint(0, 11)
		if c <= 2:
			tparams = f'[{", ".join(dict.fromkeys(self.pick(["T", "K", "V"]) for _ in range(r.randint(1, 2))))}]' if self.chance(0.08) else ''
			decos = self.decorators(ind, in_class)
			if in_class and not in_func and self.class_compound > 0 and 'def-in-class-compound' in self.exclude:
				decos = [d for d in decos if '@staticmethod' not in d]  # listed finding C02-K-def-in-class-compound
			first = 'cls' if any('@classmethod' in d for d in decos[:1]) else 'self'
			if self.friendly and in_class and any('@staticmethod' in d for d in decos):
				decos = [d for d in decos if '@staticmethod' in d][:1] + [d for d in decos if '@staticmethod' not in d and '@classmethod' not in d and '@property' not in d]
				first = ''
			if in_class and first == 'self' and not decos and self.chance(0.2) and not (self.class_compound > 0 and 'def-in-class-compound' in self.exclude):
				# a static member, wherever the class stands (module level, inside a function, inside another class)
				decos = [f'{ind}@staticmethod']
				first = ''
			fname = '__init__' if in_class and first == 'self' and self.chance(0.3) else self.name()
			in_class_sig = in_class and first != ''
			head = f'def {fname}{tparams}({self.params(in_class_sig, first) if first != "" else self.params(False)}) -> {self.pick(["None", self.type_expr()])}'
			return decos + self.suite(head, depth, level, ind_unit, False, True)
		if c <= 5:
			out = self.suite(f'if {self.expr(2, LAMBDA)}', depth, level, ind_unit, in_class, in_func)
			n_elif = r.randint(1, 2) if self.chance(0.3) else 0
			for _ in range(n_elif):
				out += self.suite(f'elif {self.expr(2, LAMBDA)}', depth, level, ind_unit, in_class, in_func)
			has_else = self.chance(0.4)
			if has_else:
				out += self.suite('else', depth, level, ind_unit, in_class, in_func)
			if n_elif and has_else:
				self.stats['clauses2'] = True
			return out
		if c == 6:
			bases = []
			if self.chance(0.6):
				bases = [self.pick(['Base', 'A', 'Enum', 'Generic[T]', 'pkg.B', 'list[int]']) for _ in range(r.randint(1, 2))]
			if self.chance(0.1):
				bases.append('metaclass=ABCMeta')
			tparams = '[T]' if self.chance(0.08) else ''
			paren = f'({", ".join(dict.fromkeys(bases))})' if bases or self.chance(0.1) else ''
			if not bases:
				self.stats['empty_slots'] += 1
			return self.decorators(ind) + self.suite(f'class {self.pick(["A", "B", "Foo", "_Impl"])}{tparams}{paren}', depth, level, ind_unit, True, False)
		if c == 7:
			items = ', '.join(f'{self.expr(1, TERNARY)}{" as " + self.name() if self.chance(0.6) else ""}' for _ in range(r.randint(1, 2)))
			if items.lstrip().startswith('('):
				items = 'ctx' + items  # `with (a, b):` is the parenthesised with-item form in CPython >= 3.9 (outside G2): make it a call
			return self.suite(f'with {items}', depth, level, ind_unit, in_class, in_func)
		if c <= 9:
			names = ', '.join(dict.fromkeys(self.name() for _ in range(r.randint(1, 2))))
			return self.suite(f'for {names} in {self.testlist(2)}', depth, level, ind_unit, in_class, in_func)
		if c == 10:
			out = self.suite('try', depth, level, ind_unit, in_class, in_func)
			n = r.randint(1, 2)
			for _ in range(n):
				out += self.suite(f'except {self.pick(["ValueError", "Exception", "A.Error", "KeyError"])}{" as " + self.pick(["e", "err"]) if self.chance(0.7) or self.friendly else ""}', depth, level, ind_unit, in_class, in_func)
			if n >= 2:
				self.stats['clauses2'] = True
			return out
		return self.suite(f'while {self.expr(2, LAMBDA)}', depth, level, ind_unit, in_class, in_func)

	def module(self, profile: str = 'mixed') -> str:
		r = self.rnd
		ind_unit = self.pick(['\t', '\t', '    ', '  ']) if self.layout else '\t'
		self.stats['tab'] = ind_unit == '\t'
		lines: list[str] = []
		if self.layout and self.chance(0.15):
			lines.append('')
		n = r.randint(1, 6)
		for _ in range(n):
			if profile == 'expr':
				lines.append(self.simple(self.max_depth))
			else:
				lines.extend(self.statement(3, 0, ind_unit))
			if self.layout and self.chance(0.15):
				lines.append('')
		text = '\n'.join(lines).replace('\n\t\t', '\n' + ind_unit * 2) if ind_unit != '\t' else '\n'.join(lines)
		return text + ('\n' if self.chance(0.8) else '')


def gen_module(rnd, profile: str = 'mixed', max_depth: int = 4, layout: bool = True, friendly: bool = False, exclude: frozenset = frozenset()) -> tuple[str, dict]:
	g = Gen(rnd, max_depth, layout, friendly)
	g.exclude = set(exclude)
	text = g.module(profile)
	stats = dict(g.stats)
	stats['op_levels'] = len(stats['op_levels'])
	return text, stats
