"""Two independent conversions into one neutral S-expression form (C02):

  canon_tranp(node)   generic: walks the *expandable properties* of tranp's node classes
  canon_py(ast node)  explicit: built from CPython's ast and Python semantics only

Normalisations (each justified by how tranp documents the shape, none hides grouping):
  * Group is dropped (CPython has no paren node): grouping must be visible in the shape
  * flat operator chains (Sum.elements = [a, +, b, -, c]) are folded to the left; Comparison becomes
    (Compare left [(op right)...]) like ast.Compare; or/and chains are n-ary like ast.BoolOp
  * name terminals are reduced to categories: decl / ref / this-param / class-param; `self.x` stores are 'this-store'
  * Class.inherits omits Generic[...] (statement_compound.py Class.inherits); docstrings are `comment`, not statements
  * Comment statements are dropped on the tranp side; Empty placeholders are ('Empty',)
"""
import ast

import rogw.tranp.syntax.node.definition as defs
from rogw.tranp.syntax.node.behavior import ITerminal

FOLD_LEFT = (defs.OrBitwise, defs.XorBitwise, defs.AndBitwise, defs.ShiftBitwise, defs.Sum, defs.Term)
DECL_CLASSES = (defs.Declable,)


class Unsupported(Exception):
	"""The CPython tree contains a construct the canon does not model (counted, not judged)."""


def _is_empty(n) -> bool:
	return isinstance(n, defs.Empty) or getattr(n, 'tag', '') == '__empty__'


def name_cat(n) -> tuple:
	cls = type(n)
	tokens = n.tokens
	if issubclass(cls, defs.DeclThisParam):
		return ('this-param', tokens)
	if issubclass(cls, defs.DeclClassParam):
		return ('class-param', tokens)
	if issubclass(cls, (defs.DeclThisVar,)):
		return ('this-store', tokens)
	if issubclass(cls, DECL_CLASSES):
		return ('decl', tokens)
	if issubclass(cls, (defs.Var,)):
		return ('ref', tokens)
	return (cls.__name__, tokens)


def canon_tranp(n):
	cls = type(n)
	if _is_empty(n):
		return ('Empty',)
	if isinstance(n, defs.Group):
		return canon_tranp(n.expression)
	if isinstance(n, defs.Comparison):
		el = n.elements
		return ('Compare', canon_tranp(el[0]), [(el[i].tokens.replace('.', ' '), canon_tranp(el[i + 1])) for i in range(1, len(el), 2)])
	if isinstance(n, (defs.OrCompare, defs.AndCompare)):
		el = n.elements
		return ('BoolOp', el[1].tokens, [canon_tranp(el[i]) for i in range(0, len(el), 2)])
	if isinstance(n, FOLD_LEFT):
		el = n.elements
		acc = canon_tranp(el[0])
		for i in range(1, len(el), 2):
			acc = ('BinOp', el[i].tokens, acc, canon_tranp(el[i + 1]))
		return acc
	if isinstance(n, defs.UnaryOperator):
		return ('UnaryOp', n.operator.tokens, canon_tranp(n.value))
	if isinstance(n, defs.TernaryOperator):
		return ('IfExp', canon_tranp(n.condition), canon_tranp(n.primary), canon_tranp(n.secondary))
	if isinstance(n, (defs.Declable, defs.Var)):
		return name_cat(n)
	if isinstance(n, defs.Relay):
		recv = canon_tranp(n.receiver)
		return ('Attr', recv, n.prop.tokens)
	if isinstance(n, defs.Indexer):
		return ('Index', canon_tranp(n.receiver), 'slice' if n.sliced else 'keys', [canon_tranp(k) for k in n.keys])
	if isinstance(n, defs.FuncCall):
		return ('Call', canon_tranp(n.calls), [canon_tranp(a) for a in n.arguments])
	if isinstance(n, defs.Argument):
		label = n.label
		return ('Arg', '' if _is_empty(label) else label.tokens, _packing(n), canon_tranp(n.value))
	if isinstance(n, defs.Spread):
		return ('Star', canon_tranp(n.expression))
	if isinstance(n, (defs.Integer, defs.Float)):
		return ('Num', 'float' if isinstance(n, defs.Float) else 'int', n.tokens)  # the node class is the literal's kind
	if isinstance(n, defs.String):
		return ('Str', n.tokens)
	if isinstance(n, defs.Boolean):
		return ('Const', 'True' if isinstance(n, defs.Truthy) else 'False')
	if isinstance(n, defs.Null):
		return ('Const', 'None')
	if isinstance(n, defs.Elipsis):
		return ('Const', '...')
	if isinstance(n, defs.Pair):
		return ('Pair', canon_tranp(n.first), canon_tranp(n.second))
	if isinstance(n, defs.List):
		return ('List', [canon_tranp(v) for v in n.values])
	if isinstance(n, defs.Tuple):
		return ('Tuple', [canon_tranp(v) for v in n.values])
	if isinstance(n, defs.Dict):
		# an item that is not a Pair is a `**expr` spread (grammar: _dict_exprlist)
		return ('Dict', [canon_tranp(v) if isinstance(v, defs.Pair) else ('Star', canon_tranp(v)) for v in n.items])
	if isinstance(n, defs.Comprehension):
		return ('ListComp' if isinstance(n, defs.ListComp) else 'DictComp', canon_tranp(n.projection),
			[('for', [canon_tranp(s) for s in f.symbols], canon_tranp(f.for_in.iterates)) for f in n.fors], canon_tranp(n.condition))
	if isinstance(n, defs.Lambda):
		return ('Lambda', [s.tokens for s in n.symbols], canon_tranp(n.expression))
	if isinstance(n, defs.Type):
		return ('Type', _type_tokens(n.tokens.replace('.', ' ')))
	# ---- statements ------------------------------------------------------------------
	if isinstance(n, defs.Entrypoint):
		return ('Module', stmts(n.statements))
	if isinstance(n, defs.MoveAssign):
		return ('Assign', [canon_target(r) for r in n.receivers], canon_tranp(n.value))
	if isinstance(n, defs.AnnoAssign):
		return ('AnnAssign', canon_target(n.receiver), canon_tranp(n.var_type), canon_tranp(n.value))
	if isinstance(n, defs.AugAssign):
		return ('AugAssign', canon_target(n.receiver, aug=True), n.operator.tokens, canon_tranp(n.value))
	if isinstance(n, defs.Delete):
		return ('Delete', [canon_tranp(t) for t in n.targets])
	if isinstance(n, defs.Return):
		return ('Return', canon_tranp(n.return_value))
	if isinstance(n, defs.Yield):
		return ('Yield', canon_tranp(n.yield_value))
	if isinstance(n, defs.Assert):
		return ('Assert', canon_tranp(n.condition), canon_tranp(n.assert_body))
	if isinstance(n, defs.Throw):
		return ('Raise', canon_tranp(n.throws), canon_tranp(n.via))
	if isinstance(n, (defs.Pass, defs.Break, defs.Continue)):
		return (cls.__name__,)
	if isinstance(n, defs.Import):
		return ('ImportFrom', n.import_path.tokens, [(s.entity_symbol.tokens, '' if _is_empty(s.alias) else s.alias.tokens) for s in n.symbols])
	if isinstance(n, defs.If):
		return ('If', canon_tranp(n.condition), stmts(n.statements), [(canon_tranp(e.condition), stmts(e.statements)) for e in n.else_ifs],
			('Empty',) if _is_empty(n.else_clause) else stmts(n.else_clause.statements))
	if isinstance(n, defs.While):
		return ('While', canon_tranp(n.condition), stmts(n.statements))
	if isinstance(n, defs.For):
		return ('For', [canon_tranp(s) for s in n.symbols], canon_tranp(n.for_in.iterates), stmts(n.statements))
	if isinstance(n, defs.Try):
		return ('Try', stmts(n.statements), [(canon_tranp(c.var_type), c.symbol.tokens if c._exists('name') else '', stmts(c.statements)) for c in n.catches])
	if isinstance(n, defs.With):
		return ('With', [(canon_tranp(e.enter), '' if _is_empty(e.symbol) else e.symbol.tokens) for e in n.entries], stmts(n.statements))
	if isinstance(n, defs.Function):
		return (cls.__name__, n.symbol.tokens, [canon_tranp(d) for d in n.decorators], [t.symbol.tokens for t in n.template_params],
			[('Param', canon_tranp(p.symbol), _param_packing(p), canon_tranp(p.var_type), canon_tranp(p.default_value)) for p in n.parameters],
			canon_tranp(n.return_type), ('Empty',) if _is_empty(n.comment) else ('Doc',), stmts(n.statements))
	if isinstance(n, defs.Class):
		return (cls.__name__, n.symbol.tokens, [canon_tranp(d) for d in n.decorators], [t.symbol.tokens for t in n.template_params],
			[canon_tranp(t) for t in n.inherits], ('Empty',) if _is_empty(n.comment) else ('Doc',), stmts(n.statements))
	if isinstance(n, defs.Decorator):
		return ('Decorator', n.path.tokens, [canon_tranp(a) for a in n.arguments])
	if isinstance(n, (defs.AltClass, defs.TemplateClass)):
		return ('TypeDecl', n.symbol.tokens)
	if isinstance(n, ITerminal) or not n.prop_keys():
		return (cls.__name__, n.tokens)
	return (cls.__name__, [(k, _generic(getattr(n, k))) for k in n.prop_keys()])


def _type_tokens(text: str) -> str:
	"""Annotations are compared as their sequence of name / number / string-content tokens (tranp joins type tokens with '.', so an
	ellipsis inside `Callable[..., X]` cannot be told from the separators and is not compared)."""
	import re
	return '.'.join(t for t in re.findall(r'[A-Za-z_][A-Za-z_0-9]*|\d+', text) if t not in ('None', 'Literal', 'Annotated'))  # typed_none / "Literal" / "Annotated" are anonymous in grammar.lark


def _generic(v):
	return [canon_tranp(x) for x in v] if isinstance(v, list) else canon_tranp(v)


def _packing(arg) -> str:
	tag = arg.tag
	return {'starargs': '*', 'kwargs': '**'}.get(tag, '')


def _param_packing(p) -> str:
	return {'starparam': '*', 'kwparams': '**'}.get(p.tag, '')


def canon_target(n, aug: bool = False):
	c = canon_tranp(n)
	if aug and c[0] in ('decl', 'ref'):
		return ('name', c[1])
	if c[0] == 'Attr' and c[1] in (('ref', 'self'),) or c[0] == 'this-store':
		tokens = c[1] if c[0] == 'this-store' else f'self.{c[2]}'
		return ('this-store', tokens)
	return c


def stmts(nodes) -> list:
	return [canon_tranp(s) for s in nodes if not isinstance(s, (defs.Comment,))]


# ---------------------------------------------------------------------------------------
# CPython side

BINOPS = {ast.Add: '+', ast.Sub: '-', ast.Mult: '*', ast.Div: '/', ast.Mod: '%', ast.BitOr: '|', ast.BitXor: '^', ast.BitAnd: '&', ast.LShift: '<<', ast.RShift: '>>'}
UNOPS = {ast.USub: '-', ast.UAdd: '+', ast.Invert: '~', ast.Not: 'not'}
CMPOPS = {ast.Lt: '<', ast.Gt: '>', ast.Eq: '==', ast.GtE: '>=', ast.LtE: '<=', ast.NotEq: '!=', ast.In: 'in', ast.NotIn: 'not in', ast.Is: 'is', ast.IsNot: 'is not'}
AUGOPS = {ast.Add: '+=', ast.Sub: '-=', ast.Mult: '*=', ast.Div: '/=', ast.Mod: '%=', ast.BitOr: '|=', ast.BitXor: '^=', ast.BitAnd: '&=', ast.LShift: '<<=', ast.RShift: '>>=',
	ast.Pow: '**=', ast.FloorDiv: '//=', ast.MatMult: '@='}


class PyCanon:
	def __init__(self, source: str) -> None:
		self.source = source
		self.ctx = 'module'

	def seg(self, n) -> str:
		return ast.get_source_segment(self.source, n) or ''

	def type_text(self, n) -> str:
		if isinstance(n, ast.Constant) and isinstance(n.value, str):
			return n.value.replace(' ', '')  # quoted annotation: tranp parses the inside
		return self._type(n)

	def _type(self, n) -> str:
		"""tokens of the tranp Type node ('.'-joined token values without blanks)."""
		if isinstance(n, ast.Name):
			return n.id
		if isinstance(n, ast.Constant) and n.value is None:
			return 'None'
		if isinstance(n, ast.Constant) and n.value is Ellipsis:
			return '...'
		raise Unsupported('type expression')

	def expr(self, n, store_self: bool = False):
		if isinstance(n, ast.BoolOp):
			return ('BoolOp', 'or' if isinstance(n.op, ast.Or) else 'and', [self.expr(v) for v in n.values])
		if isinstance(n, ast.BinOp):
			if type(n.op) not in BINOPS:
				raise Unsupported('operator')
			return ('BinOp', BINOPS[type(n.op)], self.expr(n.left), self.expr(n.right))
		if isinstance(n, ast.UnaryOp):
			return ('UnaryOp', UNOPS[type(n.op)], self.expr(n.operand))
		if isinstance(n, ast.Compare):
			return ('Compare', self.expr(n.left), [(CMPOPS[type(o)], self.expr(c)) for o, c in zip(n.ops, n.comparators)])
		if isinstance(n, ast.IfExp):
			return ('IfExp', self.expr(n.test), self.expr(n.body), self.expr(n.orelse))
		if isinstance(n, ast.Lambda):
			a = n.args
			if a.vararg or a.kwarg or a.defaults or a.kwonlyargs or a.posonlyargs:
				raise Unsupported('lambda parameters')
			return ('Lambda', [x.arg for x in a.args], self.expr(n.body))
		if isinstance(n, ast.Name):
			return ('decl' if isinstance(n.ctx, ast.Store) else 'ref', n.id)
		if isinstance(n, ast.Attribute):
			return ('Attr', self.expr(n.value), n.attr)
		if isinstance(n, ast.Subscript):
			s = n.slice
			if isinstance(s, ast.Slice):
				return ('Index', self.expr(n.value), 'slice', [self.expr(x) if x is not None else ('Empty',) for x in (s.lower, s.upper, s.step)])
			if isinstance(s, ast.Tuple) and not self._parenthesised(s):
				if any(isinstance(x, ast.Slice) for x in s.elts):
					raise Unsupported('multi-dimensional slice')
				return ('Index', self.expr(n.value), 'keys', [self.expr(x) for x in s.elts])
			return ('Index', self.expr(n.value), 'keys', [self.expr(s)])
		if isinstance(n, ast.Call):
			return ('Call', self.expr(n.func), self.call_args(n))
		if isinstance(n, ast.Starred):
			return ('Star', self.expr(n.value))
		if isinstance(n, ast.Constant):
			v = n.value
			if v is None:
				return ('Const', 'None')
			if v is True or v is False:
				return ('Const', str(v))
			if v is Ellipsis:
				return ('Const', '...')
			if isinstance(v, (int, float)):
				return ('Num', 'float' if isinstance(v, float) else 'int', self.seg(n))
			if isinstance(v, str):
				return ('Str', self.seg(n))
			raise Unsupported('constant')
		if isinstance(n, ast.JoinedStr):
			return ('Str', self.seg(n))
		if isinstance(n, ast.List):
			return ('List', [self.expr(e) for e in n.elts])
		if isinstance(n, ast.Tuple):
			return ('Tuple', [self.expr(e) for e in n.elts])
		if isinstance(n, ast.Dict):
			return ('Dict', [('Pair', self.expr(k), self.expr(v)) if k is not None else ('Star', self.expr(v)) for k, v in zip(n.keys, n.values)])
		if isinstance(n, (ast.ListComp, ast.DictComp)):
			gens = n.generators
			if any(g.is_async for g in gens) or any(len(g.ifs) > 1 for g in gens) or any(g.ifs for g in gens[:-1]):
				raise Unsupported('comprehension shape')
			fors = [('for', [self.expr(t) for t in (g.target.elts if isinstance(g.target, ast.Tuple) else [g.target])], self.expr(g.iter)) for g in gens]
			cond = self.expr(gens[-1].ifs[0]) if gens[-1].ifs else ('Empty',)
			proj = self.expr(n.elt) if isinstance(n, ast.ListComp) else ('Pair', self.expr(n.key), self.expr(n.value))
			return ('ListComp' if isinstance(n, ast.ListComp) else 'DictComp', proj, fors, cond)
		raise Unsupported(type(n).__name__)

	def call_args(self, n: ast.Call) -> list:
		"""Arguments in source order (ast separates positional and keyword arguments)."""
		items = [((a.lineno, a.col_offset), ('Arg', '', '*' if isinstance(a, ast.Starred) else '', self.expr(a.value if isinstance(a, ast.Starred) else a))) for a in n.args]
		items += [((k.value.lineno, k.value.col_offset), ('Arg', k.arg or '', '' if k.arg else '**', self.expr(k.value))) for k in n.keywords]
		return [x for _, x in sorted(items, key=lambda t: t[0])]

	def _parenthesised(self, n) -> bool:
		text = self.seg(n)
		if not (text.startswith('(') and text.endswith(')')):
			return False
		depth = 0
		quote = ''
		i = 0
		while i < len(text):
			c = text[i]
			if quote:
				if c == '\\':
					i += 1
				elif text.startswith(quote, i):
					i += len(quote) - 1
					quote = ''
			elif c in '"\'':
				quote = c * 3 if text.startswith(c * 3, i) else c
				i += len(quote) - 1
			elif c in '([{':
				depth += 1
			elif c in ')]}':
				depth -= 1
				if depth == 0 and i != len(text) - 1:
					return False
			i += 1
		return True

	def target(self, n, aug: bool = False):
		if isinstance(n, ast.Starred):
			raise Unsupported('starred assignment target')
		if isinstance(n, ast.Name):
			return ('name', n.id) if aug else ('decl', n.id)
		if isinstance(n, ast.Attribute) and isinstance(n.value, ast.Name) and n.value.id == 'self':
			return ('this-store', f'self.{n.attr}')
		return self.expr(n)

	def annotation(self, n):
		return ('Type', _type_tokens(self.seg(n))) if n is not None else ('Empty',)

	def body(self, body: list, doc: bool = False) -> list:
		out = []
		for i, s in enumerate(body):
			if doc and i == 0 and isinstance(s, ast.Expr) and isinstance(s.value, ast.Constant) and isinstance(s.value.value, str):
				continue
			out.append(self.stmt(s, self.ctx))
		return out

	def is_doc(self, s) -> bool:
		"""DocString (literal.py): a triple-double-quoted string statement directly in a def/class block."""
		if not (isinstance(s, ast.Expr) and isinstance(s.value, ast.Constant) and isinstance(s.value.value, str)):
			return False
		text = self.seg(s.value)
		return text.startswith('"""') and text.endswith('"""')

	def has_doc(self, body: list):
		return ('Doc',) if any(self.is_doc(s) for s in body) else ('Empty',)

	def stmt(self, s, ctx: str = 'module'):
		self.ctx = ctx  # compound statements keep the enclosing namespace kind (Python semantics)
		try:
			return self._stmt(s, ctx)
		finally:
			self.ctx = ctx

	def _stmt(self, s, ctx: str):
		if isinstance(s, ast.Expr):
			if isinstance(s.value, ast.Yield):
				if s.value.value is None:
					raise Unsupported('bare yield')
				return ('Yield', self.expr(s.value.value))
			return self.expr(s.value)
		if isinstance(s, ast.Assign):
			if len(s.targets) != 1:
				raise Unsupported('chained assignment')
			if isinstance(s.value, ast.Call) and isinstance(s.value.func, ast.Name) and s.value.func.id in ('TypeVar', 'TypeVarTuple', 'ParamSpec', 'TypedDict') and isinstance(s.targets[0], ast.Name):
				return ('TypeDecl', s.targets[0].id)  # template_assign / class_assign productions of grammar.lark
			t = s.targets[0]
			targets = [self.target(x) for x in t.elts] if isinstance(t, ast.Tuple) and not self._parenthesised(t) else [self.target(t)]
			return ('Assign', targets, self.expr(s.value))
		if isinstance(s, ast.AnnAssign) and isinstance(s.annotation, ast.Name) and s.annotation.id == 'TypeAlias' and isinstance(s.target, ast.Name):
			return ('TypeDecl', s.target.id)
		if isinstance(s, ast.AnnAssign) and isinstance(s.annotation, ast.Name) and s.annotation.id == 'ClassVar' and s.value is not None:
			return ('Assign', [self.target(s.target)], self.expr(s.value))  # class_var_assign production
		if isinstance(s, ast.AnnAssign) and isinstance(s.annotation, ast.Subscript) and isinstance(s.annotation.value, ast.Name) and s.annotation.value.id == 'ClassVar' and s.value is not None:
			return ('AnnAssign', self.target(s.target), self.annotation(s.annotation.slice), self.expr(s.value))  # class_var_anno_assign
		if isinstance(s, ast.AnnAssign):
			return ('AnnAssign', self.target(s.target), self.annotation(s.annotation), self.expr(s.value) if s.value is not None else ('Empty',))
		if isinstance(s, ast.AugAssign):
			return ('AugAssign', self.target(s.target, aug=True), AUGOPS[type(s.op)], self.expr(s.value))
		if isinstance(s, ast.Delete):
			return ('Delete', [self.expr(t) for t in s.targets])
		if isinstance(s, ast.Return):
			return ('Return', self.expr(s.value) if s.value is not None else ('Empty',))
		if isinstance(s, ast.Assert):
			return ('Assert', self.expr(s.test), self.expr(s.msg) if s.msg is not None else ('Empty',))
		if isinstance(s, ast.Raise):
			if s.exc is None:
				raise Unsupported('bare raise')
			return ('Raise', self.expr(s.exc), self.expr(s.cause) if s.cause is not None else ('Empty',))
		if isinstance(s, ast.Pass):
			return ('Pass',)
		if isinstance(s, ast.Break):
			return ('Break',)
		if isinstance(s, ast.Continue):
			return ('Continue',)
		if isinstance(s, ast.ImportFrom):
			if s.level:
				raise Unsupported('relative import')
			return ('ImportFrom', s.module, [(a.name, a.asname or '') for a in s.names])
		if isinstance(s, ast.If):
			elifs = []
			orelse = s.orelse
			while len(orelse) == 1 and isinstance(orelse[0], ast.If) and self.source.splitlines()[orelse[0].lineno - 1][orelse[0].col_offset:orelse[0].col_offset + 4] == 'elif':
				elifs.append((self.expr(orelse[0].test), self.body(orelse[0].body)))
				orelse = orelse[0].orelse
			return ('If', self.expr(s.test), self.body(s.body), elifs, self.body(orelse) if orelse else ('Empty',))
		if isinstance(s, ast.While):
			if s.orelse:
				raise Unsupported('while-else')
			return ('While', self.expr(s.test), self.body(s.body))
		if isinstance(s, ast.For):
			if s.orelse:
				raise Unsupported('for-else')
			t = s.target
			return ('For', [self.expr(x) for x in (t.elts if isinstance(t, ast.Tuple) else [t])], self.expr(s.iter), self.body(s.body))
		if isinstance(s, ast.Try):
			if s.orelse or s.finalbody:
				raise Unsupported('try-else/finally')
			return ('Try', self.body(s.body), [(self.annotation(h.type), h.name or '', self.body(h.body)) for h in s.handlers])
		if isinstance(s, ast.With):
			first = s.items[0].context_expr
			line = self.source.splitlines()[s.lineno - 1]
			if first.lineno == s.lineno and '(' in line[s.col_offset + 4:first.col_offset]:
				raise Unsupported('parenthesised with-items (3.10 syntax)')
			return ('With', [(self.expr(i.context_expr), i.optional_vars.id if isinstance(i.optional_vars, ast.Name) else '') for i in s.items], self.body(s.body))
		if isinstance(s, ast.FunctionDef):
			return self.function(s, ctx)
		if isinstance(s, ast.ClassDef):
			return self.klass(s)
		raise Unsupported(type(s).__name__)

	def decorators(self, decs: list) -> list:
		out = []
		for d in decs:
			if isinstance(d, ast.Call):
				out.append(('Decorator', self.seg(d.func), self.call_args(d)))
			else:
				out.append(('Decorator', self.seg(d), []))
		return out

	def function(self, f: ast.FunctionDef, ctx: str):
		"""Classification from Python semantics only: position and decorators."""
		decos = [self.seg(d.func if isinstance(d, ast.Call) else d) for d in f.decorator_list]
		if ctx == 'class':
			# a @staticmethod takes no receiver: a plain function in the class namespace (tranp has no separate class for it)
			kind = 'ClassMethod' if 'classmethod' in decos else ('Constructor' if f.name == '__init__' else ('Function' if 'staticmethod' in decos else 'Method'))
		elif ctx == 'function':
			kind = 'Closure'
		else:
			kind = 'Function'
		a = f.args
		if a.posonlyargs or a.kwonlyargs:
			raise Unsupported('positional-only / keyword-only parameters')
		params = []
		defaults = [None] * (len(a.args) - len(a.defaults)) + list(a.defaults)
		for i, (p, d) in enumerate(zip(a.args, defaults)):
			cat = 'decl'
			if p.arg == 'self':
				cat = 'this-param'
			elif p.arg == 'cls':
				cat = 'class-param'
			params.append(('Param', (cat, p.arg), '', self.annotation(p.annotation), self.expr(d) if d is not None else ('Empty',)))
		if a.vararg:
			params.append(('Param', ('decl', a.vararg.arg), '*', self.annotation(a.vararg.annotation), ('Empty',)))
		if a.kwarg:
			params.append(('Param', ('decl', a.kwarg.arg), '**', self.annotation(a.kwarg.annotation), ('Empty',)))
		tparams = [t.name for t in getattr(f, 'type_params', [])]
		inner = 'function'
		body = [self.stmt(s, inner) for s in f.body if not self.is_doc(s)]
		name = f.name
		for d in f.decorator_list:
			if isinstance(d, ast.Call) and self.seg(d.func) == '__actual__' and d.args and isinstance(d.args[0], ast.Constant):
				name = d.args[0].value
		return (kind, name, self.decorators(f.decorator_list), tparams, params, self.annotation(f.returns), self.has_doc(f.body), body)

	def klass(self, c: ast.ClassDef):
		bases = [b for b in c.bases if not (isinstance(b, ast.Subscript) and isinstance(b.value, ast.Name) and b.value.id == 'Generic')]
		is_enum = any(self.seg(b) in ('Enum', 'IntEnum', 'CEnum') for b in c.bases)
		tparams = [t.name for t in getattr(c, 'type_params', [])]
		body = [self.stmt(s, 'class') for s in c.body if not self.is_doc(s)]
		name = c.name
		for d in c.decorator_list:
			if isinstance(d, ast.Call) and self.seg(d.func) == '__actual__' and d.args and isinstance(d.args[0], ast.Constant):
				name = d.args[0].value  # ClassDef.actual_symbol
		return ('Enum' if is_enum else 'Class', name, self.decorators(c.decorator_list), tparams, [self.annotation(b) for b in bases], self.has_doc(c.body), body)

	def module(self, tree: ast.Module):
		return ('Module', [self.stmt(s) for s in tree.body])


def canon_py(source: str):
	return PyCanon(source).module(ast.parse(source))


def first_diff(a, b, path: str = '') -> str | None:
	if type(a) is not type(b):
		return f'{path}: {a!r} vs {b!r}'
	if isinstance(a, (tuple, list)):
		if len(a) != len(b):
			return f'{path}: length {len(a)} vs {len(b)}: {str(a)[:200]} vs {str(b)[:200]}'
		for i, (x, y) in enumerate(zip(a, b)):
			head = a[0] if isinstance(a, tuple) and a and isinstance(a[0], str) else ''
			d = first_diff(x, y, f'{path}/{head}[{i}]')
			if d:
				return d
		return None
	return None if a == b else f'{path}: {a!r} vs {b!r}'
