"""System-under-test factories: in-memory `App`s wired like bin/transpile.py's interactive mode.

Every App gets CacheSetting(basedir=<fresh scratch dir>) (caching enabled, so the store/restore
path is exercised too) and DataEnvPath=[tranp_dir()], never the defaults: /repo/.cache would
mask edits to tranp's own code, and the default data path is the cwd.
"""
import os
import tempfile

from vf import env

env.setup()


VIEW_IMMUTABLE_PARAM_TYPES: list[str] = []


def tranp_root() -> str:
	from rogw.tranp.app.dir import tranp_dir
	return tranp_dir()


def base_definitions(cache_dir: str, extra_source_dirs: list[str] | None = None, transpiler_env: dict | None = None, template_dirs: list[str] | None = None) -> dict:
	from rogw.tranp.app.env import DataEnvPath, SourceEnvPath
	from rogw.tranp.cache.cache import CacheSetting
	from rogw.tranp.i18n.i18n import TranslationMapping
	from rogw.tranp.implements.cpp.providers.i18n import translation_mapping_cpp
	from rogw.tranp.implements.cpp.providers.view import renderer_helper_provider_cpp
	from rogw.tranp.implements.cpp.transpiler.py2cpp import Py2Cpp
	from rogw.tranp.lang.middleware import Middleware
	from rogw.tranp.lang.module import to_fullyname
	from rogw.tranp.transpiler.types import ITranspiler, TranspilerOptions
	from rogw.tranp.view.render import Renderer, RendererEmitter, RendererHelperProvider, RendererSetting

	root = tranp_root()

	def make_renderer_setting(i18n, emitter):
		# parameters are passed by value (no immutable_param_types): `d[k]` on a `const std::map&` parameter does not compile,
		# and by-value parameters are what "plain objects are C++ values" means for C01
		return RendererSetting([*(template_dirs or []), os.path.join(root, 'data/cpp/template')], i18n.t, emitter, {'immutable_param_types': VIEW_IMMUTABLE_PARAM_TYPES})

	make_renderer_setting.__annotations__ = {'i18n': __import__('rogw.tranp.i18n.i18n', fromlist=['I18n']).I18n, 'emitter': RendererEmitter, 'return': RendererSetting}

	dirs = list(extra_source_dirs or [])
	return {
		to_fullyname(CacheSetting): lambda: CacheSetting(basedir=cache_dir),
		to_fullyname(DataEnvPath): lambda: DataEnvPath([root]),
		to_fullyname(SourceEnvPath): lambda: SourceEnvPath([*dirs, root, os.path.join(root, 'rogw/tranp/compatible/libralies')]),
		to_fullyname(ITranspiler): Py2Cpp,
		to_fullyname(Py2Cpp): Py2Cpp,
		to_fullyname(Renderer): Renderer,
		to_fullyname(RendererEmitter): Middleware,
		to_fullyname(RendererHelperProvider): renderer_helper_provider_cpp,
		to_fullyname(RendererSetting): make_renderer_setting,
		to_fullyname(TranslationMapping): translation_mapping_cpp,
		to_fullyname(TranspilerOptions): lambda: TranspilerOptions(verbose=False, env=transpiler_env or {}),
	}


def depends_template_dir(scratch: str) -> str:
	"""A project-local template directory (searched first) whose list/dict type templates use the documented `emit_depends` helper:
	the per-transpile include stack of Py2Cpp becomes observable in the output (C04)."""
	d = os.path.join(scratch, 'templates-with-depends')
	if not os.path.isdir(d):
		os.makedirs(os.path.join(d, 'type'))
		root = tranp_root()
		for name, header in (('list_type', '<vector>'), ('dict_type', '<map>')):
			stock = open(os.path.join(root, 'data/cpp/template/type', name + '.j2')).read()
			with open(os.path.join(d, 'type', name + '.j2'), 'w') as f:
				f.write("{{- emit_depends('%s') -}}\n" % header + stock)
	return d


class MemApp:
	"""One long-lived App with an in-memory `__main__` module (what Interactive does)."""

	def __init__(self, scratch: str, extra_source_dirs: list[str] | None = None, module_paths: list[str] | None = None, definitions: dict | None = None, depends_templates: bool = False) -> None:
		from rogw.tranp.app.app import App
		from rogw.tranp.app.dummy import WrapSourceProvider, make_dummy_module_meta_factory
		from rogw.tranp.data.meta.types import ModuleMetaFactory
		from rogw.tranp.lang.module import to_fullyname
		from rogw.tranp.module.modules import Modules
		from rogw.tranp.module.types import ModulePath, ModulePaths
		from rogw.tranp.syntax.ast.parser import SourceProvider

		self.cache_dir = tempfile.mkdtemp(prefix='cache-', dir=scratch)
		paths = ['__main__'] + list(module_paths or [])
		defs = {
			**base_definitions(self.cache_dir, extra_source_dirs, template_dirs=[depends_template_dir(scratch)] if depends_templates else None),
			to_fullyname(SourceProvider): WrapSourceProvider,
			to_fullyname(ModuleMetaFactory): make_dummy_module_meta_factory,
			to_fullyname(ModulePaths): lambda: ModulePaths([ModulePath(p, language='py') for p in paths]),
			**(definitions or {}),
		}
		self.app = App(defs)
		self.source_provider = self.app.resolve(SourceProvider)
		self.modules = self.app.resolve(Modules)
		self._transpiler = None

	def resolve(self, symbol):
		return self.app.resolve(symbol)

	@property
	def transpiler(self):
		if self._transpiler is None:
			from rogw.tranp.transpiler.types import ITranspiler
			self._transpiler = self.app.resolve(ITranspiler)
		return self._transpiler

	def load_main(self, source: str):
		self.source_provider.source_code = source
		self.modules.unload('__main__')
		return self.modules.load('__main__')

	def transpile_main(self, source: str) -> str:
		module = self.load_main(source)
		return self.transpiler.transpile(module.entrypoint)

	def entrypoint_only(self, source: str):
		"""Node tree without symbol resolution (Entrypoints.load)."""
		from rogw.tranp.syntax.ast.entrypoints import Entrypoints
		self.source_provider.source_code = source
		eps = self.app.resolve(Entrypoints)
		eps.unload('__main__')
		return eps.load('__main__')


class TreeApp(MemApp):
	"""MemApp whose per-module node container can be fed with an arbitrary root Entry.

	parse(src)          -> EntryOfLark of the in-memory module (through the repo's SyntaxParser)
	nodes_for(entry)    -> Entrypoint node of a *fresh* per-module container (Nodes + NodeResolver) built on `entry`
	"""

	def __init__(self, scratch: str, **kw) -> None:
		from rogw.tranp.app.config import module_dependency_provider
		from rogw.tranp.lang.module import to_fullyname
		from rogw.tranp.module.loader import ModuleDependencyProvider

		self._entry_override = None
		base = module_dependency_provider()()

		def provider():
			def deps():
				d = dict(base)
				if self._entry_override is not None:
					entry = self._entry_override
					d['rogw.tranp.syntax.ast.entry.Entry'] = lambda: entry
				return d
			return deps

		definitions = dict(kw.pop('definitions', None) or {})
		definitions[to_fullyname(ModuleDependencyProvider)] = provider
		super().__init__(scratch, definitions=definitions, **kw)

	def parse(self, source: str):
		from rogw.tranp.syntax.ast.parser import SyntaxParser
		self.source_provider.source_code = source
		return self.app.resolve(SyntaxParser)('__main__')

	def nodes_for(self, entry):
		from rogw.tranp.syntax.ast.entrypoints import Entrypoints
		eps = self.app.resolve(Entrypoints)
		eps.unload('__main__')
		self._entry_override = entry
		try:
			return eps.load('__main__')
		finally:
			self._entry_override = None


def nodes_of(node):
	"""The Query (Nodes) object behind a node."""
	return node._Node__nodes
