"""C++ side of the translation-testing oracle (C01): prelude header, driver emission, compile, run.

Trusted base: g++ -std=c++20, libstdc++, the prelude below and the `show` printers.
The prelude supplies the standard headers emitted code relies on and ONE shim: libstdc++ 12 has no
<format>, and data/i18n.yml names a printf-style formatter `std::format` (throw.j2 / str_format.j2 pass
%d/%s tags), so a variadic std::format(const char*, ...) over snprintf is provided.  Nothing else:
a member or function the emitted text needs and the standard library lacks is a compile error and counts.
"""
import os
import subprocess

PRELUDE = r'''
#pragma once
#include <algorithm>
#include <cassert>
#include <cmath>
#include <cstdio>
#include <functional>
#include <iostream>
#include <map>
#include <memory>
#include <sstream>
#include <stdexcept>
#include <string>
#include <tuple>
#include <vector>

namespace std {
	inline const char* __vf_arg(const std::string& s) { return s.c_str(); }
	template<typename T> inline T __vf_arg(T v) { return v; }
	template<typename... Args>
	std::string format(const char* fmt, Args... args) {
		int n = std::snprintf(nullptr, 0, fmt, __vf_arg(args)...);
		std::string out(n > 0 ? n : 0, '\0');
		if (n > 0) { std::snprintf(out.data(), n + 1, fmt, __vf_arg(args)...); }
		return out;
	}
	template<typename... Args>
	std::string format(const std::string& fmt, Args... args) { return format(fmt.c_str(), args...); }
}

// ---- canonical value printer (harness side; the same format is produced by vf/pyref.py) ----
inline std::string show(bool v) { return v ? "true" : "false"; }
inline std::string show(int v) { return std::to_string(v); }
inline std::string show(long v) { return std::to_string(v); }
inline std::string show(long long v) { return std::to_string(v); }
inline std::string show(unsigned int v) { return std::to_string(v); }
inline std::string show(unsigned long v) { return std::to_string(v); }
inline std::string show(float v) { char b[64]; std::snprintf(b, sizeof b, "%.9g", (double)v); return std::string("f:") + b; }
inline std::string show(double v) { char b[64]; std::snprintf(b, sizeof b, "%.9g", v); return std::string("f:") + b; }
inline std::string show(char v) { return std::string("\"") + v + "\""; }
inline std::string show(const std::string& v) { return "\"" + v + "\""; }
inline std::string show(const char* v) { return std::string("\"") + v + "\""; }
template<typename T> std::string show(const std::vector<T>& v);
template<typename K, typename V> std::string show(const std::map<K, V>& v);
template<typename... Ts> std::string show(const std::tuple<Ts...>& v);
template<typename T> std::string show(const std::vector<T>& v) {
	std::string s = "[";
	for (size_t i = 0; i < v.size(); i++) { if (i) s += ", "; s += show(v[i]); }
	return s + "]";
}
inline std::string show(const std::vector<bool>& v) {
	std::string s = "[";
	for (size_t i = 0; i < v.size(); i++) { if (i) s += ", "; s += show((bool)v[i]); }
	return s + "]";
}
template<typename K, typename V> std::string show(const std::map<K, V>& v) {
	std::string s = "{";
	bool first = true;
	for (const auto& kv : v) { if (!first) s += ", "; first = false; s += show(kv.first) + ": " + show(kv.second); }
	return s + "}";
}
template<typename... Ts> std::string show(const std::tuple<Ts...>& v) {
	std::string s = "(";
	bool first = true;
	std::apply([&](const auto&... xs) { ((s += (first ? "" : ", ") + show(xs), first = false), ...); }, v);
	return s + ")";
}
'''

CXX = os.environ.get('VERIF_CXX', 'g++')
BASE_FLAGS = ['-std=c++20', '-O0', '-w', '-fno-diagnostics-color']
SAN_FLAGS = ['-fsanitize=address,undefined', '-fno-sanitize-recover=all', '-fno-omit-frame-pointer']


class Toolchain:
	"""One prelude (+ precompiled header) per run, in the scratch directory."""

	def __init__(self, scratch: str, sanitize: bool = True) -> None:
		self.dir = os.path.join(scratch, 'cxx')
		os.makedirs(self.dir, exist_ok=True)
		self.sanitize = sanitize
		self.flags = BASE_FLAGS + (SAN_FLAGS if sanitize else [])
		self.prelude = os.path.join(self.dir, 'prelude.h')
		if not os.path.exists(self.prelude + '.gch'):
			with open(self.prelude, 'w') as f:
				f.write(PRELUDE)
			p = subprocess.run([CXX, *self.flags, '-x', 'c++-header', self.prelude, '-o', self.prelude + '.gch'], capture_output=True, text=True)
			if p.returncode != 0:
				raise RuntimeError('cannot precompile the prelude: ' + p.stderr[:2000])
		self.n = 0

	def compile(self, text: str) -> tuple[str | None, str]:
		"""Returns (binary path | None, compiler stderr)."""
		self.n += 1
		src = os.path.join(self.dir, f'tu{self.n}.cpp')
		exe = os.path.join(self.dir, f'tu{self.n}.bin')
		with open(src, 'w') as f:
			f.write(text)
		p = subprocess.run([CXX, *self.flags, '-include', self.prelude, src, '-o', exe], capture_output=True, text=True)
		os.unlink(src)
		if p.returncode != 0:
			return None, p.stderr
		return exe, p.stderr

	def run(self, exe: str, timeout: float = 20) -> tuple[int, str, str]:
		env = dict(os.environ, ASAN_OPTIONS='detect_leaks=0:abort_on_error=0', UBSAN_OPTIONS='print_stacktrace=0')
		try:
			p = subprocess.run([exe], capture_output=True, text=True, timeout=timeout, env=env)
			return p.returncode, p.stdout, p.stderr
		except subprocess.TimeoutExpired:
			return -999, '', 'timeout'
		finally:
			try:
				os.unlink(exe)
			except OSError:
				pass


def strip_header(cpp: str) -> str:
	"""Drop '#pragma once' (several programs share one translation unit in separate namespaces)."""
	return '\n'.join(l for l in cpp.split('\n') if l.strip() != '#pragma once')


def driver(programs: list[dict]) -> str:
	"""programs: [{ns, cpp, shows: [c++ text of extra show() overloads], calls: [(label, c++ call expr)], exceptions: {cpp type: python name}}]"""
	out: list[str] = []
	for p in programs:
		out.append(f'namespace {p["ns"]} {{')
		out.append(strip_header(p['cpp']))
		out.append('using ::show;')
		out.extend(p.get('shows', []))
		out.append('int __run() {')
		for label, call in p['calls']:
			out.append('\ttry {')
			out.append(f'\t\tstd::string __r = show({call});')
			out.append(f'\t\tstd::cout << "{label} " << __r << std::endl;')
			for ctype, pyname in p.get('exceptions', {'std::runtime_error': 'RuntimeError'}).items():
				out.append(f'\t}} catch (const {ctype}& e) {{ std::cout << "{label} RAISED {pyname}" << std::endl;')
			out.append(f'\t}} catch (const std::exception& e) {{ std::cout << "{label} RAISED <std::exception>" << std::endl;')
			out.append(f'\t}} catch (...) {{ std::cout << "{label} RAISED <unknown>" << std::endl; }}')
		out.append('\treturn 0;')
		out.append('}')
		out.append('}')
	out.append('int main() {')
	for p in programs:
		out.append(f'\tstd::cout << "== {p["ns"]}" << std::endl;')
		out.append(f'\t{p["ns"]}::__run();')
	out.append('\treturn 0;')
	out.append('}')
	return '\n'.join(out) + '\n'
