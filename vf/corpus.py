"""G3 — real modules of the tree under test, read at run time (an edited file is checked as it is)."""
import glob
import os

from vf import env


def files(tier: str = 'quick') -> list[str]:
	root = env.REPO
	pats = ['rogw/tranp/compatible/**/*.py', 'tests/unit/**/fixtures/*.py', 'example/**/*.py']
	out: list[str] = []
	for p in pats:
		out.extend(sorted(glob.glob(os.path.join(root, p), recursive=True)))
	rest = sorted(set(glob.glob(os.path.join(root, 'rogw/**/*.py'), recursive=True)) - set(out))
	if tier == 'quick':
		rest = rest[env.seed() % 4::4]  # a rotating quarter in the quick tier, everything in the thorough tier
	out.extend(rest)
	return [f for f in out if os.path.getsize(f) > 0]


def shard_files(tier: str, shard: int, nshards: int) -> list[str]:
	return files(tier)[shard::nshards]


def read(path: str) -> str:
	with open(path, encoding='utf-8') as f:
		return f.read()
