"""Reference transpilation in a fresh process (C04): every module / main variant in its own fresh App.

usage: python -m vf.ref_transpile <job.json>   (job: {"proj": dir, "modules": [names], "mains": [sources]})
prints JSON {"modules": {name: text | "ERROR ..."}, "mains": [text | "ERROR ..."]}
"""
import json
import os
import sys
import tempfile

sys.path.insert(0, os.path.dirname(os.path.dirname(os.path.abspath(__file__))))
from vf import env  # noqa: E402

env.setup()


def main() -> int:
	from rogw.tranp.errors import Errors
	from vf import sut
	job = json.load(open(sys.argv[1]))
	out = {'modules': {}, 'mains': []}
	with env.Scratch('ref') as s:
		for name in job['modules']:
			a = sut.MemApp(s.fresh('app'), extra_source_dirs=[job['proj']], depends_templates=bool(job.get('depends_templates')))
			try:
				out['modules'][name] = a.transpiler.transpile(a.modules.load(name).entrypoint)
			except Errors.Error as e:
				out['modules'][name] = f'ERROR {type(e).__name__}'
		for src in job['mains']:
			a = sut.MemApp(s.fresh('app'), extra_source_dirs=[job['proj']], depends_templates=bool(job.get('depends_templates')))
			try:
				out['mains'].append(a.transpile_main(src))
			except Errors.Error as e:
				out['mains'].append(f'ERROR {type(e).__name__}')
	json.dump(out, sys.stdout)
	return 0


if __name__ == '__main__':
	sys.exit(main())
