"""Providers referenced from generated config.yml `di:` sections (importable because /verif is on sys.path)."""


def cache_setting_disabled():
	from rogw.tranp.cache.cache import CacheSetting
	return CacheSetting(basedir='.cache/tranp', enabled=False)
